//! Relaxed-memory exploration (loom) of the parts of `sync::Arena` whose atomics are real objects:
//! the bump cursor and the reference counter of a plain-layout arena with `Freelist::None`.
//! (Free-list nodes are raw memory reinterpreted as atomics and cannot be modelled by loom.)
//!
//! The bytes of the arena are raw memory loom cannot see, so every access a thread makes to a byte
//! range it owns is mirrored on a shadow `loom::cell::UnsafeCell` for that range; loom then reports
//! a causality violation when two such accesses are not ordered by the C11 happens-before relation
//! that the orderings written in the library produce.  Freeing the backing memory is mirrored as a
//! write to every shadow cell, on the freeing thread, from a `#[global_allocator]` hook.
//!
//! usage: rarena-loom <model>      exit 0 = every execution of the model is race free
use loom::cell::UnsafeCell;
use loom::sync::Arc;
use loom::thread;
use rarena_allocator::{sync::Arena, Allocator, Buffer, Freelist, Options};
use std::alloc::{GlobalAlloc, Layout, System};
use std::panic::{catch_unwind, AssertUnwindSafe};
use std::sync::atomic::{AtomicBool, AtomicPtr, AtomicUsize, Ordering};

const SLOTS: usize = 8;
type Shadow = [UnsafeCell<u64>; SLOTS];

static WATCHED: AtomicUsize = AtomicUsize::new(0);
static SHADOW: AtomicPtr<Shadow> = AtomicPtr::new(core::ptr::null_mut());
static VIOLATION: AtomicBool = AtomicBool::new(false);
static FREED: AtomicUsize = AtomicUsize::new(0);
static ITER: AtomicUsize = AtomicUsize::new(0);

struct Hook;
unsafe impl GlobalAlloc for Hook {
  unsafe fn alloc(&self, l: Layout) -> *mut u8 {
    unsafe { System.alloc(l) }
  }
  unsafe fn alloc_zeroed(&self, l: Layout) -> *mut u8 {
    unsafe { System.alloc_zeroed(l) }
  }
  unsafe fn realloc(&self, p: *mut u8, l: Layout, n: usize) -> *mut u8 {
    unsafe { System.realloc(p, l, n) }
  }
  unsafe fn dealloc(&self, ptr: *mut u8, l: Layout) {
    let w = WATCHED.load(Ordering::Relaxed);
    if w != 0 && ptr as usize == w {
      WATCHED.store(0, Ordering::Relaxed);
      FREED.fetch_add(1, Ordering::Relaxed);
      let sh = SHADOW.swap(core::ptr::null_mut(), Ordering::Relaxed);
      if !sh.is_null() {
        // the free is a write access to every byte of the backing memory
        let r = catch_unwind(AssertUnwindSafe(|| unsafe {
          for c in (*sh).iter() {
            c.with_mut(|p| *p = u64::MAX);
          }
        }));
        if r.is_err() {
          VIOLATION.store(true, Ordering::Relaxed);
        }
      }
    }
    unsafe { System.dealloc(ptr, l) }
  }
}
#[global_allocator]
static GLOBAL: Hook = Hook;

fn arena(cap: u32) -> Arena {
  Options::new().with_capacity(cap).with_freelist(Freelist::None).alloc::<Arena>().unwrap()
}

/// the thread owns [off, off+len): mirror a write access on the shadow cells of that range
fn touch(sh: &Shadow, base: usize, off: usize, len: usize) {
  let mut o = off;
  while o < off + len {
    let slot = (o - base) / 8;
    if slot < SLOTS {
      sh[slot].with_mut(|p| unsafe { *p += 1 });
    }
    o = (o / 8 + 1) * 8;
  }
}

fn shadow() -> Arc<Shadow> {
  Arc::new(std::array::from_fn(|_| UnsafeCell::new(0u64)))
}

fn watch(a: &Arena, sh: &Arc<Shadow>) {
  SHADOW.store(Arc::as_ptr(sh) as *mut _, Ordering::Relaxed);
  WATCHED.store(a.raw_ptr() as usize, Ordering::Relaxed);
}

fn end_of_model(teardown_expected: bool) {
  if teardown_expected {
    assert_eq!(WATCHED.load(Ordering::Relaxed), 0, "backing memory was not freed after the last handle was dropped");
  }
  assert!(!VIOLATION.swap(false, Ordering::Relaxed), "backing memory freed although accesses made through another handle do not happen-before the free");
  WATCHED.store(0, Ordering::Relaxed);
  SHADOW.store(core::ptr::null_mut(), Ordering::Relaxed);
}

#[derive(Clone, Copy)]
enum Kind {
  Bytes,
  Typed,
  Aligned,
  Owned,
}

/// allocate through `a`, touch the range, release it again (top release rewinds the cursor)
fn alloc_touch_release(a: &Arena, sh: &Shadow, kind: Kind, keep: bool) {
  let base = a.data_offset();
  match kind {
    Kind::Bytes => {
      if let Ok(mut b) = a.alloc_bytes(8) {
        touch(sh, base, b.offset(), b.capacity());
        if keep {
          unsafe { b.detach() };
        }
      }
    }
    Kind::Typed => {
      if let Ok(mut b) = unsafe { a.alloc::<u64>() } {
        touch(sh, base, b.offset(), b.capacity());
        if keep {
          unsafe { b.detach() };
        }
      }
    }
    Kind::Aligned => {
      if let Ok(mut b) = a.alloc_aligned_bytes::<u32>(4) {
        touch(sh, base, b.offset(), b.capacity());
        if keep {
          unsafe { b.detach() };
        }
      }
    }
    Kind::Owned => {
      if let Ok(mut b) = a.alloc_bytes_owned(8) {
        touch(sh, base, b.offset(), b.capacity());
        if keep {
          unsafe { b.detach() };
        }
      }
    }
  }
}

/// two threads allocate / touch / release on one arena: a range given back by one thread and handed
/// to the other must carry a happens-before edge from the old owner's accesses to the new owner's
fn recycle(k1: Kind, k2: Kind, ops: usize) {
  loom::model(move || {
    ITER.fetch_add(1, Ordering::Relaxed);
    let a = arena(40);
    let sh = shadow();
    let t = {
      let (a, sh) = (a.clone(), sh.clone());
      thread::spawn(move || {
        for _ in 0..ops {
          alloc_touch_release(&a, &sh, k1, false);
        }
      })
    };
    for _ in 0..ops {
      alloc_touch_release(&a, &sh, k2, false);
    }
    t.join().unwrap();
    end_of_model(false);
  });
}

/// handles dropped concurrently: the last one frees the memory, after every access through the others
fn teardown(kind: Kind, extra_clone: bool) {
  loom::model(move || {
    ITER.fetch_add(1, Ordering::Relaxed);
    let a = arena(40);
    let sh = shadow();
    watch(&a, &sh);
    let t1 = {
      let (h, sh) = (a.clone(), sh.clone());
      thread::spawn(move || {
        alloc_touch_release(&h, &sh, kind, true);
        if extra_clone {
          let c = h.clone();
          drop(h);
          drop(c);
        } else {
          drop(h);
        }
      })
    };
    drop(a);
    t1.join().unwrap();
    end_of_model(true);
  });
}

/// an owned buffer outlives the arena value it was allocated through and is dropped on another thread
fn owned_outlives() {
  loom::model(|| {
    ITER.fetch_add(1, Ordering::Relaxed);
    let a = arena(40);
    let sh = shadow();
    watch(&a, &sh);
    let base = a.data_offset();
    let b = a.alloc_bytes_owned(8).unwrap();
    let t1 = {
      let sh = sh.clone();
      thread::spawn(move || {
        touch(&sh, base, b.offset(), b.capacity());
        drop(b);
      })
    };
    drop(a);
    t1.join().unwrap();
    end_of_model(true);
  });
}

const MODELS: [&str; 9] = ["recycle-bytes-bytes", "recycle-typed-typed", "recycle-bytes-typed", "recycle-aligned-bytes", "recycle-owned-bytes", "teardown-bytes", "teardown-typed-clone", "teardown-owned", "owned-outlives-arena"];

fn main() {
  let m = std::env::args().nth(1).unwrap_or_default();
  if m == "list" {
    for x in MODELS {
      println!("{x}");
    }
    return;
  }
  // loom reports a finding by panicking inside the model; unwinding out of a model drops loom
  // objects outside of it and aborts, so the first panic is the verdict: print it and leave
  std::panic::set_hook(Box::new(|info| {
    println!("{}", info);
    println!("ITERATIONS {}", ITER.load(Ordering::Relaxed));
    println!("RESULT violation");
    std::process::exit(1);
  }));
  let r = catch_unwind(|| match m.as_str() {
    "recycle-bytes-bytes" => recycle(Kind::Bytes, Kind::Bytes, 2),
    "recycle-typed-typed" => recycle(Kind::Typed, Kind::Typed, 2),
    "recycle-bytes-typed" => recycle(Kind::Bytes, Kind::Typed, 2),
    "recycle-aligned-bytes" => recycle(Kind::Aligned, Kind::Bytes, 2),
    "recycle-owned-bytes" => recycle(Kind::Owned, Kind::Bytes, 1),
    "teardown-bytes" => teardown(Kind::Bytes, false),
    "teardown-typed-clone" => teardown(Kind::Typed, true),
    "teardown-owned" => teardown(Kind::Owned, false),
    "owned-outlives-arena" => owned_outlives(),
    _ => {
      eprintln!("unknown model {m}");
      std::process::exit(2)
    }
  });
  println!("ITERATIONS {}", ITER.load(Ordering::Relaxed));
  if r.is_err() {
    println!("RESULT violation");
    std::process::exit(1);
  }
  println!("RESULT ok");
}
