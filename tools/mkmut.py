#!/usr/bin/env python3
"""mkmut.py <name> <file> <old> <new> [<file> <old> <new> ...]  -> /verif/mutations/<name>.patch
Edits are applied to a throw-away git worktree of /repo HEAD; every <old> must occur exactly once
unless it is prefixed with 'ALL:'."""
import subprocess, sys, tempfile, os, shutil
name = sys.argv[1]; args = sys.argv[2:]
wt = tempfile.mkdtemp(prefix="mkmut-", dir="/tmp")
os.rmdir(wt)
subprocess.check_call(["git", "-C", "/repo", "worktree", "add", "-q", "--detach", wt])
try:
    for i in range(0, len(args), 3):
        f, old, new = args[i:i+3]
        p = os.path.join(wt, f)
        s = open(p).read()
        if old.startswith("ALL:"):
            old = old[4:]; assert s.count(old) >= 1, (f, old)
        else:
            assert s.count(old) == 1, (f, old, s.count(old))
        open(p, "w").write(s.replace(old, new))
    d = subprocess.check_output(["git", "-C", wt, "diff"])
    open(f"/verif/mutations/{name}.patch", "wb").write(d)
    print(f"wrote mutations/{name}.patch ({len(d)} bytes)")
finally:
    subprocess.call(["git", "-C", "/repo", "worktree", "remove", "--force", wt])
