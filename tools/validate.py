#!/usr/bin/env python3
"""Validate MANIFEST.json and every evidence file against the given schemas (python3-vt has jsonschema)."""
import json, sys, glob, jsonschema
ok = True
jsonschema.validate(json.load(open('/verif/MANIFEST.json')), json.load(open('/root/.vp/MANIFEST.schema.json')))
es = json.load(open('/root/.vp/EVIDENCE.schema.json'))
m = json.load(open('/verif/MANIFEST.json'))
for c in m['checks']:
    p = c['evidence_file']
    try:
        jsonschema.validate(json.load(open(p)), es)
    except Exception as e:
        ok = False; print("BAD", p, str(e)[:300])
print("ok" if ok else "FAILED")
sys.exit(0 if ok else 1)
