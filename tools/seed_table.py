#!/usr/bin/env python3
"""Regenerates /verif/seeded/README.md from the meta.json files written by tools/ingest_seed.sh."""
import json, glob, os
rows = []
for m in sorted(glob.glob('/verif/seeded/*/meta.json')):
    d = json.load(open(m))
    c = d['confirmed']
    conf = "yes" if (c['demo_on_unchanged_tree'] == 'pass' and c['repository_suite_with_patch'] == 'pass' and c['demo_with_patch'] == 'fail') else f"NO ({c})"
    checks = "; ".join(f"{x['check']}: {'**caught** `'+x['first_signature']+'`' if x['exit']==1 else ('missed' if x['exit']==0 else 'machinery')}" for x in d['checks_run'])
    what = ""
    rd = os.path.join(os.path.dirname(m), 'README.md')
    if os.path.exists(rd):
        for l in open(rd):
            l = l.strip()
            if l and not l.startswith('#'):
                what = l[:160]; break
    if d.get('not_counted'):
        checks += f" — **not counted**: {d['not_counted']}"
    if d.get('note'):
        checks += f" — {d['note']}"
    rows.append(f"| {d['seed']} | {d['breaks_property']} | {conf} | {checks} | {what} |")
out = ["# Independently seeded changes", "",
       "Each change was produced by a sub-agent that saw only the text of one property and worked in its own",
       "scratch worktree of /repo.  `tools/ingest_seed.sh` confirmed in a fresh worktree that the agent's",
       "demonstration passes on the unchanged tree, that with the patch the repository's own suite still passes",
       "and the demonstration fails, and then ran the listed checks (quick tier) against the patched tree.",
       "The verdicts below are those of the *last* ingestion of each seed (after strengthening, where a first",
       "run had missed it; DESIGN.md section 8 lists those).", "",
       "| seed | property | confirmed | checks | what (first line of the agent's README) |", "|---|---|---|---|---|"] + rows
open('/verif/seeded/README.md', 'w').write("\n".join(out) + "\n")
print(len(rows), "seeds")
