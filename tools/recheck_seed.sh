#!/bin/bash
# tools/recheck_seed.sh <seed-id> <check> [<check>...]
# Re-runs the given checks (quick tier unless TIER is set) against an already ingested seeded change and
# rewrites "checks_run" in its meta.json (the confirmation block is left as recorded at ingestion).
set -u
SID="$1"; shift
D="/verif/seeded/$SID"
[ -f "$D/patch.diff" ] || { echo "no $D/patch.diff"; exit 2; }
W="/tmp/recheck-$SID-$$"
git -C /repo worktree add -q --detach "$W" || exit 2
cleanup() { git -C /repo worktree remove --force "$W" >/dev/null 2>&1; rm -rf "$W"; }
trap cleanup EXIT
if ! git -C "$W" apply "$D/patch.diff"; then echo "SEED $SID: patch does not apply to current /repo HEAD"; exit 2; fi
RES=""; JS=""
for id in "$@"; do
  out=$(VERIF_REPO="$W" VERIF_ROOT="$W/.verif-out" /verif/bin/check "$id" --tier "${TIER:-quick}" 2>&1); rc=$?
  sig=$(echo "$out" | grep -m1 "signature:" | sed 's/.*signature: *//')
  RES="$RES $id=$rc${sig:+[$sig]}"
  JS="$JS{\"check\":\"$id\",\"tier\":\"${TIER:-quick}\",\"exit\":$rc,\"first_signature\":\"$sig\"},"
done
python3 - "$D/meta.json" "[${JS%,}]" <<'EOF'
import json, sys
m = json.load(open(sys.argv[1])); new = json.loads(sys.argv[2])
old = {c['check']: c for c in m.get('checks_run', [])}
for c in new: old[c['check']] = c
m['checks_run'] = list(old.values())
json.dump(m, open(sys.argv[1], 'w'), indent=1)
EOF
echo "RECHECK $SID: checks:$RES"
