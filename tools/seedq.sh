#!/bin/bash
# serial runner for ingest jobs: each line of /tmp/logs/queue.txt is the argument list of ingest_seed.sh
Q=/tmp/logs/queue.txt; DONE=/tmp/logs/queue.done; touch $Q $DONE
while true; do
  line=$(comm -23 <(sort -u $Q) <(sort -u $DONE) | head -1)
  if [ -z "$line" ]; then sleep 20; continue; fi
  echo "$line" >> $DONE
  sid=$(echo "$line" | awk '{print $3}')
  (cd /verif && tools/ingest_seed.sh $line > /tmp/logs/ingest-$sid.log 2>&1)
  tail -1 /tmp/logs/ingest-$sid.log >> /tmp/logs/ingest-summary.txt
done
