#!/bin/bash
# tools/ingest_seed.sh <agent-worktree> <A|B> <seed-id> <property> <check> [<check>...]
# Confirms a sub-agent's seeded change in a fresh scratch worktree of /repo:
#   demo passes on the unchanged tree; with the patch the repository suite still passes and the demo fails;
# then runs the given checks (quick tier) against the patched tree and records everything in
# /verif/seeded/<seed-id>/{patch.diff,demo.rs,README.md,meta.json}.  Removes the scratch worktree.
set -u
SRC="$1"; AB="$2"; SID="$3"; PROP="$4"; shift 4
D="$SRC/SEED/$AB"
[ -f "$D/patch.diff" ] || { echo "no $D/patch.diff"; exit 2; }
W="/tmp/ingest-$SID-$$"
git -C /repo worktree add -q --detach "$W" || exit 2
cleanup() { git -C /repo worktree remove --force "$W" >/dev/null 2>&1; rm -rf "$W"; }
trap cleanup EXIT
export CARGO_TARGET_DIR="$W/.base-target"
mkdir -p "$W/rarena-allocator/tests"; cp "$D/demo.rs" "$W/rarena-allocator/tests/seed_demo.rs"
# DEMO_MIRI=1: the demonstration only fails under miri (weakened orderings are invisible on x86-64)
if [ -n "${DEMO_MIRI:-}" ]; then
  MF="${DEMO_MIRIFLAGS--Zmiri-disable-weak-memory-emulation -Zmiri-address-reuse-cross-thread-rate=0}"
  DEMO_CMD="MIRIFLAGS='$MF' cargo +nightly miri test -p rarena-allocator --test seed_demo --offline"
  demo() { (cd "$W" && MIRIFLAGS="$MF" timeout 1200 cargo +nightly miri test -p rarena-allocator --test seed_demo --offline 2>&1 | grep -E "^test result|panicked|error(\[|:)|Undefined Behavior" | head -5); }
else
  DEMO_CMD="cargo test -p rarena-allocator --features ${DEMO_FEATURES:-memmap} --test seed_demo --offline"
  demo() { (cd "$W" && timeout 600 cargo test -p rarena-allocator --features ${DEMO_FEATURES:-memmap} --test seed_demo --offline 2>&1 | grep -E "^test result|panicked|error(\[|:)" | head -5); }
fi
U=$(demo); case "$U" in *"test result: ok"*) DU=pass;; *) DU="FAIL";; esac
if ! git -C "$W" apply "$D/patch.diff"; then echo "SEED $SID: patch does not apply to current /repo HEAD"; exit 2; fi
BASE=$(cd "$W" && cargo test --workspace --no-fail-fast --offline 2>&1 | grep "^test result" | head -1)
case "$BASE" in *" 0 failed"*) B=pass;; *) B="FAIL";; esac
P=$(demo); case "$P" in *"test result: ok"*) DP=pass;; *) DP="fail";; esac
unset CARGO_TARGET_DIR
RES=""; JS=""
for id in "$@"; do
  out=$(VERIF_REPO="$W" VERIF_ROOT="$W/.verif-out" /verif/bin/check "$id" --tier "${TIER:-quick}" 2>&1); rc=$?
  sig=$(echo "$out" | grep -m1 "signature:" | sed 's/.*signature: *//')
  RES="$RES $id=$rc${sig:+[$sig]}"
  JS="$JS{\"check\":\"$id\",\"tier\":\"${TIER:-quick}\",\"exit\":$rc,\"first_signature\":\"$sig\"},"
done
mkdir -p "/verif/seeded/$SID"
cp "$D/patch.diff" "$D/demo.rs" "/verif/seeded/$SID/"; cp "$D/README.md" "/verif/seeded/$SID/README.md" 2>/dev/null
cat > "/verif/seeded/$SID/meta.json" <<META
{
 "seed": "$SID",
 "breaks_property": "$PROP",
 "origin": "independent sub-agent given only the property text (worktree $SRC, change $AB)",
 "needs_to_manifest": "see README.md (written by the sub-agent)",
 "confirmed": {
   "demo_on_unchanged_tree": "$DU",
   "repository_suite_with_patch": "$B",
   "demo_with_patch": "$DP",
   "commands": ["${DEMO_CMD//\"/\\\"}", "cargo test --workspace --no-fail-fast --offline"]
 },
 "checks_run": [${JS%,}]
}
META
echo "SEED $SID ($PROP): demo-unchanged=$DU suite-with-patch=$B demo-with-patch=$DP checks:$RES"
