#!/usr/bin/env python3
"""Regenerates /verif/MANIFEST.json from the table below (run after adding a check)."""
import json, sys
CHECKS = {
 # id: (engine, category, technique, level text, level note, design ref)
 "C01": ("E2-history", "model_checking", "bounded exhaustive enumeration of operation histories on the real arenas with a shadow-heap oracle",
         "every history of depth 4 (thorough: 5, plus a configuration grid) over a 21-symbol alphabet from fresh and pre-fragmented start states, on sync and unsync arenas over Vec/anon/file backends in both layouts; every live handle is checked in bounds, disjoint and byte-intact after every step",
         "bounded depth/alphabet/<=4 droppable handles; hooks (snapshot accessors) trusted; image-restore between histories self-checked against fresh arenas", "6 C01"),
 "C03": ("E2-history", "model_checking", "bounded exhaustive histories plus exhaustive layout x cursor-residue grid",
         "capacity/offset/address arithmetic checked on every allocation of every enumerated history, from cursor residues and recycled segments",
         "type layouts limited to align<=16,size<=64", "6 C03"),
 "C08": ("E2-history", "model_checking", "bounded exhaustive histories with dirty predecessors; all-zero oracle at return",
         "every byte allocation of every enumerated history (incl. rewind, top release, discard_freelist, recycled segments) is checked to be all zero at return; every earlier owner filled its range with non-zero bytes",
         "bounded depth/alphabet", "6 C08"),
 "C10": ("E2-history", "model_checking", "bounded exhaustive histories; free-list snapshot well-formedness plus reference policy model",
         "after every step the free list read through the snapshot hook is checked finite/acyclic/aligned/in range/disjoint/ordered, and every slow-path allocation is compared with a reference model of the documented policy",
         "typed requests: success is three-valued between size and size+align-1", "6 C10"),
 "C11": ("E2-history", "model_checking", "bounded exhaustive histories replayed on both flavours; per-step observation equality",
         "every enumerated history over the single-threaded trait surface is run on sync::Arena and unsync::Arena built from the same Options and every per-step observation tuple (result, offsets, extents, allocated, discarded, remaining, free list) must be equal",
         "InsufficientSpace payload ignored", "6 C11"),
 "C20": ("E2-history", "model_checking", "bounded exhaustive histories with a reference accounting model",
         "discarded() is checked monotone and the priced steps (increase_discarded, None-release, too-small release, discard_freelist) are checked exactly on every enumerated history; discarded ranges are tracked and must never be handed out again",
         "unpriced steps only checked for monotonicity", "6 C20"),
 "C02": ("E1-schedule", "model_checking", "stateless preemption-bounded exploration of thread schedules of the real sync::Arena under a controlled scheduler; shadow heap, write-into-live and wild-access oracles",
         "every schedule with <= 3 preemptions (pairs) / <= 2 (triples) [thorough: 4-5 / 3] of 2-3 logical threads running 1-2 operations each on one shared arena, from 5+ initial free-list shapes, both list policies and None, both layouts; scheduling points are exactly the arena's atomic accesses",
         "sequentially consistent interleavings only; <= 3 threads, <= 2 operations per thread; Backoff shim; weak CAS treated as strong", "6 C02"),
 "C07": ("E1-schedule", "model_checking", "same exploration; non-termination oracle: all unfinished threads parked (or fair event cap) => solo budget => hang",
         "every schedule within the same bounds, with programs that retain allocations, finish early or call discard_freelist; a thread is parked only after a wait-loop iteration that overlapped no memory-changing access, so 'everybody parked' proves that nobody can make progress",
         "fairness = forced hand-over after 250 consecutive events; event cap 4000 per execution reported as hang", "6 C07"),
 "C12": ("E1-schedule", "model_checking", "same exploration with a vector-clock happens-before monitor fed by the memory orderings the code passes (C++20 release sequences)",
         "on every explored schedule every pair of conflicting accesses with a plain side (arena zeroing, owner fill / last read, teardown) must be ordered by the happens-before relation derived from the orderings written in the source; clone/drop programs included",
         "decides SC executions only; orderings taken from the hooked call sites", "6 C12"),
 "C13": ("E1-schedule", "model_checking", "preemption-bounded exploration of clone/drop/owned-handle programs: teardown exactly once, never early, no access after it",
         "every schedule with <= 3 (pairs) / 2 (triples) preemptions of threads that own arena values, clone them, allocate owned buffers and drop everything in all orders; teardown hook must fire exactly once, only when no arena value is alive, and nothing may touch the memory afterwards",
         "single-threaded release accounting is checked by the E2 release oracle inside C01-style histories (flag O_RELEASE) in the same command", "6 C13"),
 "C14": ("grid", "model_checking", "exhaustive small-scope enumeration of buffer methods x values x fill levels x buffer sources with whole-image before/after comparison",
         "every put/write/get of 10 integer types x 3 byte orders, u8/i8, put_slice and io::Write of every length, set_len to every length, align_to/put/put_aligned over 100+ layouts and 8 varint types, at every fill level of buffers of capacity 0..=20 taken from fresh, padded and recycled space, borrowed and owned, sync and unsync",
         "value alphabet boundary-dense, not exhaustive over 2^128", "6 C14"),
 "C04": ("grid+E2", "fault_enumeration", "complete enumeration of a boundary-dense size grid x type layouts x reachable states, in single-threaded child processes per build profile (release and overflow-checked)",
         "every allocation flavour with every size of a 45-value boundary grid (around remaining, capacity, 2^31, 2^32-allocated, u32::MAX) and 60+ type layouts as the final call after every prefix of <= 2 operations from 6 start states in 12 configuration cells, on both flavours, plus read-only arenas; each call must succeed under the C01/C03 oracles or fail cleanly with the state unchanged; panics and fatal signals are caught and attributed",
         "capacities <= 264; sharded over child processes so that a wild write cannot hit another case", "6 C04"),
 "C15": ("grid", "model_checking", "complete enumeration of offsets x readers x fill states against reference decoders, with a poisoned twin arena for varints",
         "26 readers x every offset 0..=capacity+16 and usize extremes x 6 (11) fill states x backends x flavours", "contents fixed byte-distinct pattern", "6 C15"),
 "C16": ("grid+E2", "model_checking", "complete construction grid plus bounded exhaustive histories with layout oracle and side-by-side image equality on three unified backends",
         "reserved x capacity-around-prefix x layout x backend x flavour constructions checked against the Options formulas and accessors; every history of depth 3 (4) with reserved-prefix immutability, remaining()==capacity-allocated, first-offset; every history on Vec/anon/file unified arenas with byte-identical images after every step",
         "quick tier: reserved 0..=72 plus selected values up to 4096", "6 C16"),
 "C17": ("grid+E2", "model_checking", "boundary-dense ArenaPosition grid against an i128 reference clamp; histories with rewinds; clear + continuation differential against a fresh arena",
         "every position of the grid in 5 states x 16 cells x 2 flavours; every history of depth 3 (4) containing rewinds; every history x clear x every continuation of depth 2 (3) compared step by step with the same continuation on a fresh arena with the minimum segment size in force",
         "rewinds that would leave a free segment above the cursor are outside the caller contract and disabled", "6 C17"),
 "C18": ("grid+E2", "model_checking", "truncate(n) over an n-grid after every bounded history, followed by allocations under the shadow/policy/zero oracles",
         "n over 0..=4*capacity (boundary-dense in quick) after every history of depth 2 (3) from 4 start states in 15 cells; capacity == max(n, allocated), allocator state and bytes below allocated unchanged, follow-up allocations fit exactly the new capacity; read-only arenas refuse",
         "live data is detached before truncate (handles embedding clones across a truncate are outside the quantifier)", "6 C18"),
 "C19": ("grid", "model_checking", "complete enumeration of allocated lengths x reserved lengths with two checksummers against the one-shot digest",
         "every allocated length up to 3 pages + 80 x reserved 0..=64 (quick: all lengths for 4 reserved values, page-boundary-dense for the rest) x Crc32 and an order-sensitive position hash x both flavours",
         "contents a fixed position-dependent pattern", "6 C19"),
}
PENDING = {}  # id -> reason (filled while the build is in progress)
ALL = ["C%02d" % i for i in range(1, 21)]
checks = []
for pid, (eng, cat, tech, text, note, ref) in sorted(CHECKS.items()):
    checks.append({
        "property_id": pid,
        "quick_cmd": f"./bin/check {pid} --tier quick",
        "thorough_cmd": f"./bin/check {pid} --tier thorough",
        "evidence_file": f"/verif/evidence/{pid}.json",
        "replay_cmd_template": "./bin/check replay {path}",
        "engine": eng,
        "level_claimed": {"category": cat, "text": text, "design_ref": "DESIGN.md section " + ref},
        "level_note": note,
        "technique": tech,
    })
na = [{"property_id": p, "reason": PENDING.get(p, "check under construction in this build session; not claimed yet")} for p in ALL if p not in CHECKS]
m = {
 "version": 1,
 "setup_cmd": "./bin/check --build-only",
 "hooks": {
   "guard": "--cfg rarena_verif",
   "enable": "RUSTFLAGS=\"--cfg rarena_verif\" (set by bin/check; harness crate /verif/mc depends on /repo/rarena-allocator by path with feature memmap)",
   "baseline_off_cmd": "cd /repo && cargo test --workspace --no-fail-fast --offline",
   "source_commits": ["6d5980f", "276c8cf"],
   "add_only": True,
 },
 "engines": [
   {"name": "E1-schedule", "path": "/verif/mc/src/sched.rs", "serves_properties": sorted(k for k,v in CHECKS.items() if v[0]=="E1-schedule"), "kind_free_text": "stateless DFS over scheduler choice prefixes with a preemption bound; logical threads are coroutines switched only at the hooked atomic accesses of the real implementation"},
   {"name": "grid", "path": "/verif/mc/src/props_grid.rs (+ props_buf.rs, props_c04.rs)", "serves_properties": sorted(k for k,v in CHECKS.items() if v[0].startswith("grid")), "kind_free_text": "complete enumeration of a finite input grid against reference encodings"},
   {"name": "E2-history", "path": "/verif/mc/src/hist.rs", "serves_properties": sorted(k for k,v in CHECKS.items() if v[0]=="E2-history"), "kind_free_text": "depth-bounded exhaustive enumeration of operation histories on the real implementation, image-restore between histories"},
 ],
 "checks": checks,
 "not_applicable": na,
 "notes": "All checks rebuild the harness from /repo's working tree (cargo fingerprinting). VERIF_REPO=<dir> points the same checks at a scratch copy.",
}
json.dump(m, open("/verif/MANIFEST.json", "w"), indent=1)
print("checks:", len(checks), "not_applicable:", len(na))
