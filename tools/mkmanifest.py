#!/usr/bin/env python3
"""Regenerates /verif/MANIFEST.json from the table below (run after adding a check)."""
import json, sys
CHECKS = {
 # id: (engine, category, technique, level text, level note, design ref)
 "C01": ("E2-history", "model_checking", "bounded exhaustive enumeration of operation histories on the real arenas with a shadow-heap oracle",
         "every history of depth 4 (thorough: 5, plus a configuration grid) over a 21-symbol alphabet from fresh and pre-fragmented start states, on sync and unsync arenas over Vec/anon/file backends in both layouts; every live handle is checked in bounds, disjoint and byte-intact after every step",
         "bounded depth/alphabet/<=4 droppable handles; hooks (snapshot accessors) trusted; image-restore between histories self-checked against fresh arenas", "6 C01"),
 "C03": ("E2-history", "model_checking", "bounded exhaustive histories plus exhaustive layout x cursor-residue grid",
         "capacity/offset/address arithmetic checked on every allocation of every enumerated history, from cursor residues and recycled segments",
         "type layouts limited to align<=16,size<=64", "6 C03"),
 "C08": ("E2-history", "model_checking", "bounded exhaustive histories with dirty predecessors; all-zero oracle at return",
         "every byte allocation of every enumerated history (incl. rewind, top release, discard_freelist, recycled segments) is checked to be all zero at return; every earlier owner filled its range with non-zero bytes",
         "bounded depth/alphabet", "6 C08"),
 "C10": ("E2-history", "model_checking", "bounded exhaustive histories; free-list snapshot well-formedness plus reference policy model",
         "after every step the free list read through the snapshot hook is checked finite/acyclic/aligned/in range/disjoint/ordered, and every slow-path allocation is compared with a reference model of the documented policy",
         "typed requests: success is three-valued between size and size+align-1", "6 C10"),
 "C11": ("E2-history", "model_checking", "bounded exhaustive histories replayed on both flavours; per-step observation equality",
         "every enumerated history over the single-threaded trait surface is run on sync::Arena and unsync::Arena built from the same Options and every per-step observation tuple (result, offsets, extents, allocated, discarded, remaining, free list) must be equal",
         "InsufficientSpace payload ignored", "6 C11"),
 "C20": ("E2-history", "model_checking", "bounded exhaustive histories with a reference accounting model",
         "discarded() is checked monotone and the priced steps (increase_discarded, None-release, too-small release, discard_freelist) are checked exactly on every enumerated history; discarded ranges are tracked and must never be handed out again",
         "unpriced steps only checked for monotonicity", "6 C20"),
}
PENDING = {}  # id -> reason (filled while the build is in progress)
ALL = ["C%02d" % i for i in range(1, 21)]
checks = []
for pid, (eng, cat, tech, text, note, ref) in sorted(CHECKS.items()):
    checks.append({
        "property_id": pid,
        "quick_cmd": f"./bin/check {pid} --tier quick",
        "thorough_cmd": f"./bin/check {pid} --tier thorough",
        "evidence_file": f"/verif/evidence/{pid}.json",
        "replay_cmd_template": "./bin/check replay {path}",
        "engine": eng,
        "level_claimed": {"category": cat, "text": text, "design_ref": "DESIGN.md section " + ref},
        "level_note": note,
        "technique": tech,
    })
na = [{"property_id": p, "reason": PENDING.get(p, "check under construction in this build session; not claimed yet")} for p in ALL if p not in CHECKS]
m = {
 "version": 1,
 "setup_cmd": "./bin/check --build-only",
 "hooks": {
   "guard": "--cfg rarena_verif",
   "enable": "RUSTFLAGS=\"--cfg rarena_verif\" (set by bin/check; harness crate /verif/mc depends on /repo/rarena-allocator by path with feature memmap)",
   "baseline_off_cmd": "cd /repo && cargo test --workspace --no-fail-fast --offline",
   "source_commits": ["6d5980f", "276c8cf"],
   "add_only": True,
 },
 "engines": [
   {"name": "E2-history", "path": "/verif/mc/src/hist.rs", "serves_properties": sorted(k for k,v in CHECKS.items() if v[0]=="E2-history"), "kind_free_text": "depth-bounded exhaustive enumeration of operation histories on the real implementation, image-restore between histories"},
 ],
 "checks": checks,
 "not_applicable": na,
 "notes": "All checks rebuild the harness from /repo's working tree (cargo fingerprinting). VERIF_REPO=<dir> points the same checks at a scratch copy.",
}
json.dump(m, open("/verif/MANIFEST.json", "w"), indent=1)
print("checks:", len(checks), "not_applicable:", len(na))
