#!/usr/bin/env python3
"""Prints the prompt given to an independent sub-agent for one property (only the property text, no /verif content)."""
import json, sys
pid = sys.argv[1]; tag = sys.argv[2] if len(sys.argv) > 2 else "a"
for l in open('/verif/properties.jsonl'):
    p = json.loads(l)
    if p['id'] == pid: break
wt = f"/tmp/seed-{pid}-{tag}"
import glob, os
prev = []
for d in sorted(glob.glob(f"/verif/seeded/{pid}-*")):
    rd = os.path.join(d, "README.md")
    if os.path.exists(rd):
        txt = [l.strip() for l in open(rd) if l.strip() and not l.startswith('#')]
        prev.append(" ".join(txt[:3])[:400])
avoid = ""
if prev and tag != "a":
    avoid = "\nEarlier rounds already produced the following changes for this property. Yours must use DIFFERENT mechanisms and different source locations (do not re-do these, and do not produce trivial variants of them):\n" + "\n".join(f"  - {x}" for x in prev) + "\nLook for less obvious places: other configurations (reserved > 0, minimum segment size 0 or large, maximum alignment, plain vs unified layout, Vec / anonymous mmap / file backends), other API entry points (owned handles, to_owned, typed allocations of unusual layouts, zero-sized requests, explicit dealloc, set_minimum_segment_size, increase_discarded, discard_freelist, clear, rewind), state that is only reached after several operations, the second of two cooperating code paths, or the sync vs unsync twin of a function.\n"
print(f"""You are helping to evaluate a verification framework for the Rust repository al8n/rarena (crate `rarena-allocator`: a lock-free arena allocator with CAS-based size-ordered free lists, sync and unsync variants, Vec / anonymous-mmap / file-mmap backing). The sandbox has NO network; cargo must always be run with `--offline`.

Set-up (do this first): create your own scratch git worktree and work ONLY inside it:
    git -C /repo worktree add --detach {wt}
Never edit anything under /repo itself and never read, list or touch /verif (your work must be independent of it). The source contains a few lines guarded by `#[cfg(rarena_verif)]` (instrumentation that is compiled out in normal builds): ignore them, do not rely on them and do not modify them.

The property (of the library's observable behaviour):
    Title: {p['title']}
    Statement: {p['statement']}
    Quantifier: {p['quantifier']['text']}

{avoid}
Your task: produce TWO independent changes (call them A and B) to the library source under {wt}/rarena-allocator/src, each of which BREAKS this property while
  (1) the workspace still compiles, and
  (2) the repository's existing test suite still passes completely:  cd {wt} && cargo test --workspace --no-fail-fast --offline   (68 unit tests + doctests; run it and confirm 0 failures; it is also worth running `cargo test -p rarena-allocator --features memmap --offline` to see you did not break the file-backed tests, but only the first command is mandatory).
Each change must be REALISTIC (the kind of slip a maintainer could make in a refactor or an 'optimisation': an off-by-one, a dropped or reordered statement, a weakened memory ordering, a wrong field, a missed case) and must need something SPECIFIC to manifest — a particular thread interleaving, a crash or fault at a particular point, a multi-step sequence of operations, an unusual input or configuration, or two cooperating sites that each look fine alone — not something that ordinary use would expose at once. Prefer changes in different mechanisms / different source locations for A and B. Keep each change small (a few lines).

For each change also write a DEMONSTRATION: a Rust integration test (put it at {wt}/rarena-allocator/tests/seed_demo_<a|b>.rs; use `--features memmap` if it needs file-backed arenas; for concurrency you may use std threads with many iterations, or explain the interleaving and drive it deterministically if you can) that FAILS with the change applied and PASSES on the unchanged source. Verify both directions yourself (apply change -> demo fails and baseline suite passes; revert change -> demo passes). If a concurrency demo cannot be made to fail reliably, say so honestly and give the precise interleaving that triggers it instead.

Deliverables (plain files, do NOT git commit anything):
  {wt}/SEED/A/patch.diff   - `git diff -- rarena-allocator/src` of change A alone (library source only, without the demo)
  {wt}/SEED/A/demo.rs      - copy of the demonstration test for A
  {wt}/SEED/A/README.md    - what the change is, which clause of the property it breaks, what it needs in order to manifest, the exact commands you ran and a summary of their output
  and the same under {wt}/SEED/B/.
Leave the worktree source tree REVERTED to the unchanged state at the end (only SEED/ and the two demo test files may remain). Remove any large build output you no longer need is NOT necessary (the caller removes the worktree). Finally report: the worktree path, a two-line description of A and B, and whether each demonstration fails reliably.""")
