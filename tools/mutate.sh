#!/bin/bash
# tools/mutate.sh <patch> <Cxx> [<Cxx> ...]
# Applies <patch> to a scratch worktree of /repo, runs the repository's own suite there (guard off)
# and then the given checks (quick tier) against it.  Prints one summary line.  Removes the worktree.
set -u
PATCH="$(readlink -f "$1")"; shift
NAME="$(basename "$PATCH" .patch)"
WT="/tmp/mut-$NAME-$$"
git -C /repo worktree add -q --detach "$WT" || exit 2
cleanup() { git -C /repo worktree remove --force "$WT" >/dev/null 2>&1; rm -rf "$WT"; }
trap cleanup EXIT
if ! git -C "$WT" apply "$PATCH"; then echo "MUT $NAME: patch does not apply"; exit 2; fi
BASE=$(cd "$WT" && CARGO_TARGET_DIR="$WT/.base-target" cargo test --workspace --no-fail-fast --offline 2>&1 | grep "^test result" | head -1)
case "$BASE" in *" 0 failed"*) B=pass;; *) B="FAIL($BASE)";; esac
RES=""
for id in "$@"; do
  out=$(VERIF_REPO="$WT" VERIF_ROOT="$WT/.verif-out" /verif/bin/check "$id" --tier "${TIER:-quick}" 2>&1); rc=$?
  sig=$(echo "$out" | grep -m1 "signature:" | sed 's/.*signature: *//')
  RES="$RES $id=$rc${sig:+[$sig]}"
  if [ -n "${VERBOSE:-}" ]; then echo "$out" | tail -15; fi
done
echo "MUT $NAME: baseline=$B checks:$RES"
