#!/bin/bash
# runs every claimed check (quick tier by default) and prints one line each
cd /verif
for p in $(python3 -c "import json;print(' '.join(c['property_id'] for c in json.load(open('MANIFEST.json'))['checks']))"); do
  s=$(date +%s); out=$(./bin/check $p --tier ${TIER:-quick} 2>&1); rc=$?; e=$(date +%s)
  echo "$p rc=$rc $((e-s))s $(echo "$out" | tail -1)"
  if [ $rc -ne 0 ]; then echo "$out" | grep -E "VIOLATION|signature|message|machinery|KNOWN" | head -6; fi
done
