//! E1 — stateless, preemption-bounded exploration of thread schedules of the real `sync::Arena`.
//!
//! Logical threads are stackful coroutines multiplexed on the explorer's OS thread; the hook's
//! `before` callback (one per atomic access of the arena) is the only scheduling point.
use crate::hb::Hb;
use crate::report::{hash_of, FnMap, Run, Violation};
use crate::subject::*;
use generator::{Generator, Gn};
use rarena_allocator::sync::Arena;
use rarena_allocator::verif::{self, Event, Hook, Kind, Ranges};
use rarena_allocator::{Allocator, Buffer, Options};
use serde::{Deserialize, Serialize};
use serde_json::{json, Value};
use std::cell::RefCell;
use std::sync::atomic::Ordering;

pub const EVENT_CAP: u64 = 4000;
pub const SOLO_BUDGET: i64 = 400;
pub const FAIR_SLICE: u32 = 250;
const STACK_WORDS: usize = 0x4000; // 128 KiB per coroutine

#[derive(Clone, Copy, Debug, PartialEq, Eq, Hash, Serialize, Deserialize)]
pub enum TOp {
  /// alloc_bytes(n), keep
  B(u32),
  /// alloc::<u64>(), keep
  U64,
  /// alloc_aligned_bytes::<u64>(n), keep
  AB(u32),
  /// alloc::<u128>() (alignment 16: twice the alignment of a free-list node), keep
  T16,
  /// an observer: allocated() within [data_offset, capacity], slices as long as the accessors say, readers
  /// refuse the first offset beyond the capacity
  Probe,
  /// alloc_bytes_owned(n): handle embeds a clone of the arena
  BO(u32),
  /// alloc_aligned_bytes_owned::<u64>(n): an owned buffer with alignment padding in front when the cursor is odd
  ABO(u32),
  /// release the most recent allocation of this thread
  DropOwn,
  /// release a range that was allocated before the threads started
  DropPre(u8),
  Discard,
  /// clone the arena value this thread owns
  CloneArena,
  /// drop one arena value owned by this thread (the last clone first, finally its own)
  DropArena,
  /// litmus steps on the header atomics (self-test of the non-SC exploration): 0 set_minimum_segment_size(24),
  /// 1 increase_discarded(1), 2 observe discarded(), 3 observe minimum_segment_size()
  Lit0,
  Lit1,
  Lit2,
  Lit3,
}

impl TOp {
  pub fn short(&self) -> String {
    match self {
      TOp::B(n) => format!("B{n}"),
      TOp::U64 => "U64".into(),
      TOp::AB(n) => format!("AB{n}"),
      TOp::T16 => "T16".into(),
      TOp::Probe => "Probe".into(),
      TOp::BO(n) => format!("BO{n}"),
      TOp::ABO(n) => format!("ABO{n}"),
      TOp::DropOwn => "D".into(),
      TOp::DropPre(i) => format!("Dp{i}"),
      TOp::Discard => "Disc".into(),
      TOp::CloneArena => "Clone".into(),
      TOp::DropArena => "DropArena".into(),
      TOp::Lit0 => "SetMin24".into(),
      TOp::Lit1 => "IncDisc1".into(),
      TOp::Lit2 => "ReadDisc".into(),
      TOp::Lit3 => "ReadMin".into(),
    }
  }
}

pub fn progs_str(p: &[Vec<TOp>]) -> String {
  p.iter().map(|t| t.iter().map(|o| o.short()).collect::<Vec<_>>().join(",")).collect::<Vec<_>>().join(" || ")
}

#[derive(Clone, Debug, PartialEq, Eq, Hash, Serialize, Deserialize)]
pub struct Harness {
  pub fl: Fl,
  pub unify: bool,
  pub min_seg: u32,
  pub cap: u32,
  /// free-list shape built before the threads start:
  /// bit0 free block a (40 bytes), bit1 free block c (56 or 40 bytes), bit2 leave 24 bytes of fresh
  /// space, bit3 block c is 56 bytes instead of 40, bit4 also free a third block e (24 bytes),
  /// bit5 the free block e is the last thing below the cursor (the filler is allocated first and an 8-byte
  /// tail block behind e is released last), with 8 bytes (+ bit2 / `leave`) of fresh space behind it;
  /// bit6: the arena is cleared after all that (the threads start on a used-and-cleared arena, nothing is live);
  /// bit7: `rewind(End(leave / 2))` before the threads start (a forward seek: gives nothing back)
  pub shape: u8,
  pub progs: Vec<Vec<TOp>>,
  /// every logical thread owns its own clone and drops it at the end (teardown inside the schedule)
  pub own_arenas: bool,
  /// bytes of fresh space left when the threads start (0 = use shape bit2)
  #[serde(default)]
  pub leave: u32,
  /// extra bytes allocated first, so that the blocks sit at odd offsets; with `leave` > 0 the cursor itself
  /// starts at this residue mod 8
  #[serde(default)]
  pub odd: u8,
  /// reserved prefix of the arena (filled with a pattern that must survive)
  #[serde(default)]
  pub reserved: u32,
}

#[derive(Clone, Copy, PartialEq, Debug)]
enum St {
  Runnable,
  Parked(u64),
  Finished,
}

#[derive(Clone, Debug)]
pub struct Choice {
  pub n: u8,
  pub chosen: u8,
  pub pre_before: u8,
  /// switching away here costs a preemption
  pub costly: bool,
  /// 0: which thread runs next; 1: which message a load reads (option 0 = the newest); 2: whether a
  /// `compare_exchange_weak` that would succeed fails spuriously (option 0 = no)
  pub kind: u8,
  /// deviations of this kind (stale reads / spurious failures) taken before this point
  pub dev_before: u8,
  /// sleep-set mode: options (bit j = option j) whose thread is asleep here; they are not explored from this node
  pub asleep: u16,
}

/// What the next visible action of a logical thread touches (sleep-set mode).  Every transition of a logical
/// thread is one visible action, announced at the scheduling point in front of it, followed by computation that
/// touches nothing shared.
#[derive(Clone, Copy, Debug, Default)]
pub struct Fp {
  /// 0 nothing beyond the ranges; 1 reads everything (a wait: depends on every write); 2 writes everything (teardown)
  all: u8,
  n: u8,
  r: [(usize, usize, bool); 2],
}

impl Fp {
  fn one(lo: usize, len: usize, write: bool) -> Fp {
    Fp { all: 0, n: 1, r: [(lo, lo + len, write), (0, 0, false)] }
  }
  fn two(a: (usize, usize, bool), b: (usize, usize, bool)) -> Fp {
    Fp { all: 0, n: 2, r: [(a.0, a.0 + a.1, a.2), (b.0, b.0 + b.1, b.2)] }
  }
  fn read_all() -> Fp {
    Fp { all: 1, ..Default::default() }
  }
  fn write_all() -> Fp {
    Fp { all: 2, ..Default::default() }
  }
  fn writes(&self) -> bool {
    self.all == 2 || self.r[..self.n as usize].iter().any(|x| x.2 && x.1 > x.0)
  }
  fn empty(&self) -> bool {
    self.all == 0 && self.r[..self.n as usize].iter().all(|x| x.1 <= x.0)
  }
}

/// two visible actions are dependent when they touch a common byte and one of them writes it
fn dependent(a: &Fp, b: &Fp) -> bool {
  if a.all == 2 || b.all == 2 {
    return true;
  }
  if a.all == 1 && b.writes() || b.all == 1 && a.writes() {
    return true;
  }
  for x in &a.r[..a.n as usize] {
    for y in &b.r[..b.n as usize] {
      if (x.2 || y.2) && x.0 < y.1 && y.0 < x.1 {
        return true;
      }
    }
  }
  false
}

#[derive(Clone, Debug)]
pub struct LiveH {
  pub tid: usize,
  pub m: Meta4,
  pub pat: u8,
  pub kind: &'static str,
  pub path: &'static str,
}

#[derive(Clone, Debug)]
pub struct V {
  pub class: String,
  pub sig: String,
  pub msg: String,
}

#[derive(Clone, Debug)]
struct TraceEv {
  tid: usize,
  what: String,
}

#[derive(Default)]
struct Eng {
  n: usize,
  st: Vec<St>,
  cur: usize,
  next: usize,
  prefix: Vec<u8>,
  choices: Vec<Choice>,
  preempt: u8,
  events: u64,
  wepoch: u64,
  yield_epoch: Vec<u64>,
  consecutive: u32,
  aborting: bool,
  solo: Option<(usize, i64)>,
  rg: Ranges,
  torn_down: bool,
  teardowns: u32,
  teardown_by: Option<usize>,
  live: Vec<LiveH>,
  viol: Vec<V>,
  tracing: bool,
  trace: Vec<TraceEv>,
  last_load: Vec<(usize, u64, &'static str, u32)>,
  last_write_to: Vec<(usize, usize, &'static str, u32, u64, u64)>, // ring of recent writes: (off, tid, file, line, old, new)
  op_idx: Vec<usize>,
  in_op: Vec<bool>,
  switches_in_op: u32,
  state_hashes: Vec<u64>,
  hash_states: bool,
  hb: Option<Hb>,
  fl: Option<Fl>,
  cap_hit: bool,
  observer: bool,
  max_op_events: u64,
  op_events: Vec<u64>,
  /// arena values (originals, clones, clones embedded in owned handles) currently alive
  values: i64,
  /// rolling hash of everything each logical thread has observed so far (identifies its continuation)
  hist: Vec<u64>,
  /// state key at every recorded choice point (only when state caching is on)
  choice_keys: Vec<u64>,
  cache_keys: bool,
  bounded: bool,
  /// budgets of the non-SC deviations (0 = loads read the newest message, weak CASes never fail spuriously)
  stale_max: u8,
  spur_max: u8,
  stale: u8,
  spur: u8,
  /// the message the load in flight reads (weak mode)
  pending_read: Option<u32>,
  /// the zeroing write just announced lies outside the arena and is left out
  skip_write: bool,
  /// the sequential continuation after the threads is running
  draining: bool,
  /// values observed by the litmus steps: (thread, step, value)
  obs: Vec<(u8, u8, u64)>,
  /// sleep-set mode (no preemption bound): partial-order reduction
  por: bool,
  /// footprint of the visible action each thread performs when it is scheduled next
  pending: Vec<Fp>,
  /// threads asleep (bit t): their next action was explored from an ancestor and nothing dependent happened since
  sleep: u32,
  /// choice point at which every enabled thread was asleep: the rest of this execution repeats an explored one
  blocked_at: Option<usize>,
  /// sleep-set mode: what each thread has loaded since its last yield (address, size), and whether any of it has
  /// been overwritten since (then the next iteration of its wait loop may go differently: it is not parked)
  rs: Vec<Vec<(usize, usize)>>,
  dirty: Vec<bool>,
  /// location-precise parking (always on in sleep-set mode; on its own only for the self-test of the reduction)
  precise: bool,
}

thread_local! {
  static ENG: RefCell<Eng> = RefCell::new(Eng::default());
  static FNMAP: FnMap = FnMap::new();
}

pub struct Abort;

fn fn_of(file: &str, line: u32) -> String {
  FNMAP.with(|m| m.lookup(file, line))
}

fn enabled(e: &Eng, t: usize) -> bool {
  match e.st[t] {
    St::Runnable => true,
    St::Parked(ep) => !e.precise && e.wepoch > ep,
    St::Finished => false,
  }
}

/// choose the next thread; records a choice point when more than one option exists
fn decide(e: &mut Eng, cur_ok: bool, costly: bool) -> Option<usize> {
  let mut opts: [usize; 8] = [0; 8];
  let mut n = 0;
  if cur_ok {
    opts[n] = e.cur;
    n += 1;
  }
  for t in 0..e.n {
    if !(cur_ok && t == e.cur) && enabled(e, t) {
      opts[n] = t;
      n += 1;
    }
  }
  if n == 0 {
    return None;
  }
  if e.por && e.blocked_at.is_none() {
    return Some(decide_por(e, &opts[..n], cur_ok, costly));
  }
  if n == 1 {
    return Some(opts[0]);
  }
  let pos = e.choices.len();
  let c = if pos < e.prefix.len() { e.prefix[pos] } else { 0 };
  if c as usize >= n {
    // a divergence while replaying a prefix is a machinery error
    e.viol.push(V { class: "machinery".into(), sig: "machinery:replay-divergence".into(), msg: format!("choice {} of {} options at point {}", c, n, pos) });
    e.aborting = true;
    return Some(opts[0]);
  }
  if e.cache_keys {
    let k = choice_key(e, cur_ok, costly);
    e.choice_keys.push(k);
  }
  if e.hash_states {
    let h = state_hash(e);
    e.state_hashes.push(h);
  }
  e.choices.push(Choice { n: n as u8, chosen: c, pre_before: e.preempt, costly: cur_ok && costly, kind: 0, dev_before: 0, asleep: 0 });
  if cur_ok && costly && c != 0 {
    e.preempt += 1;
  }
  Some(opts[c as usize])
}

/// Sleep sets (Godefroid): the options of a node are explored in ascending order; while option c is explored the
/// threads of the options before it sleep, and a sleeping thread wakes up as soon as an action dependent on its
/// pending one is executed.  A node whose enabled threads are all asleep only leads to executions that are
/// equivalent (same per-thread observations, same memory) to explored ones: the execution is finished with default
/// choices and not expanded any further.
fn decide_por(e: &mut Eng, opts: &[usize], cur_ok: bool, costly: bool) -> usize {
  let n = opts.len();
  let mut asleep: u16 = 0;
  for (j, t) in opts.iter().enumerate() {
    if e.sleep & (1 << *t) != 0 {
      asleep |= 1 << j;
    }
  }
  let first_awake = (0..n).find(|j| asleep & (1 << j) == 0);
  let c: usize;
  if n == 1 {
    match first_awake {
      Some(_) => c = 0,
      None => {
        e.blocked_at = Some(e.choices.len());
        e.sleep = 0;
        return opts[0];
      }
    }
  } else {
    let pos = e.choices.len();
    if pos < e.prefix.len() {
      c = e.prefix[pos] as usize;
      if c >= n || asleep & (1 << c) != 0 {
        e.viol.push(V { class: "machinery".into(), sig: "machinery:replay-divergence".into(), msg: format!("choice {} of {} options (asleep {:#b}) at point {}", c, n, asleep, pos) });
        e.aborting = true;
        return opts[0];
      }
    } else {
      match first_awake {
        Some(j) => c = j,
        None => {
          e.blocked_at = Some(pos);
          e.sleep = 0;
          e.choices.push(Choice { n: n as u8, chosen: 0, pre_before: e.preempt, costly: cur_ok && costly, kind: 0, dev_before: 0, asleep });
          return opts[0];
        }
      }
    }
    if e.hash_states {
      let h = state_hash(e);
      e.state_hashes.push(h);
    }
    e.choices.push(Choice { n: n as u8, chosen: c as u8, pre_before: e.preempt, costly: cur_ok && costly, kind: 0, dev_before: 0, asleep });
    // the siblings explored before this option sleep in its subtree
    for t in &opts[..c] {
      e.sleep |= 1 << *t;
    }
  }
  let t = opts[c];
  e.sleep &= !(1 << t);
  let fp = e.pending[t];
  let mut z = e.sleep;
  while z != 0 {
    let u = z.trailing_zeros() as usize;
    z &= z - 1;
    if dependent(&e.pending[u], &fp) {
      e.sleep &= !(1 << u);
    }
  }
  // what this thread does after the action is not known before its next scheduling point: nothing shared
  e.pending[t] = Fp::default();
  t
}

/// sleep-set mode: a write that changed `[lo, lo+len)`.  Whether a waiting thread is parked must not depend on
/// writes that are independent of everything it did (the reduction commutes those), so here a thread is parked when
/// none of the words it loaded since its last yield has changed, and woken by a change to one of them.
fn note_write(e: &mut Eng, lo: usize, len: usize) {
  if !e.precise || len == 0 {
    return;
  }
  for t in 0..e.n {
    if e.rs[t].iter().any(|x| x.0 < lo + len && lo < x.0 + x.1) {
      e.dirty[t] = true;
      if t != e.cur {
        if let St::Parked(_) = e.st[t] {
          e.st[t] = St::Runnable;
        }
      }
    }
  }
}

/// sleep-set mode: announce the visible action the running thread is about to perform
fn announce(e: &mut Eng, fp: Fp) {
  if e.por {
    let cur = e.cur;
    if cur < e.pending.len() {
      e.pending[cur] = fp;
    }
  }
}

/// a scheduling point in front of a visible action of the harness itself (registration of a handle, the owner's last
/// look at its bytes) or of the arena's plain writes; only in sleep-set mode, where every visible action needs one
fn visible_point(fp: Fp) {
  let on = ENG.with(|e| {
    let mut e = e.borrow_mut();
    if !e.por || e.observer || e.draining || e.solo.is_some() || e.aborting || e.cur >= e.n {
      return false;
    }
    announce(&mut e, fp);
    true
  });
  if on {
    sched_point_ex(true);
  }
}

/// a choice that is not about scheduling: `n` options, option 0 is the default (SC) behaviour
fn decide_value(e: &mut Eng, n: usize, kind: u8) -> usize {
  let pos = e.choices.len();
  let c = if pos < e.prefix.len() { e.prefix[pos] } else { 0 };
  if c as usize >= n {
    e.viol.push(V { class: "machinery".into(), sig: "machinery:replay-divergence".into(), msg: format!("value choice {} of {} options at point {}", c, n, pos) });
    e.aborting = true;
    return 0;
  }
  if e.cache_keys {
    let k = choice_key(e, true, true) ^ 0x5bd1e995u64.wrapping_mul(kind as u64 + 1);
    e.choice_keys.push(k);
  }
  if e.hash_states {
    let h = state_hash(e);
    e.state_hashes.push(h);
  }
  let dev = if kind == 1 { e.stale } else { e.spur };
  e.choices.push(Choice { n: n as u8, chosen: c, pre_before: e.preempt, costly: false, kind, dev_before: dev, asleep: 0 });
  c as usize
}

#[inline]
fn mix(h: &mut u64, x: u64) {
  *h ^= x;
  *h = h.wrapping_mul(0x100000001b3);
  *h ^= *h >> 29;
}

/// Key of the global state at a choice point: two prefixes that reach equal keys have the same
/// futures (memory image, every thread's continuation, scheduler and oracle state).
fn choice_key(e: &Eng, cur_ok: bool, costly: bool) -> u64 {
  let mut h: u64 = 0x9e3779b97f4a7c15;
  unsafe {
    let p = e.rg.base as *const u64;
    for i in 0..e.rg.cap / 8 {
      mix(&mut h, std::ptr::read_volatile(p.add(i)));
    }
    if !e.torn_down {
      // header (plain layout) and reference counter live in the Memory box
      let b = e.rg.memory_box as *const u64;
      for i in 0..e.rg.memory_box_len / 8 {
        mix(&mut h, std::ptr::read_volatile(b.add(i)));
      }
    }
  }
  for t in 0..e.n {
    mix(&mut h, e.hist[t]);
    let st = match e.st[t] {
      St::Runnable => 1u64,
      St::Parked(ep) => 2 + (e.wepoch > ep) as u64,
      St::Finished => 4,
    };
    mix(&mut h, st << 8 | ((e.yield_epoch[t] == e.wepoch) as u64) << 4 | e.in_op[t] as u64);
  }
  mix(&mut h, e.cur as u64 | (cur_ok as u64) << 8 | (costly as u64) << 9 | (e.torn_down as u64) << 10 | (e.teardowns as u64) << 12 | ((e.values as u64) & 0xff) << 20);
  mix(&mut h, (e.consecutive / 64) as u64);
  if e.bounded {
    mix(&mut h, e.preempt as u64);
  }
  mix(&mut h, e.live.len() as u64);
  h
}

enum Act {
  Go,
  Abort,
  Switch,
}

fn do_act(a: Act) {
  do_act_ex(a, false)
}

/// `quiet`: the caller holds a live handle of the subject (registration / release of a handle by the harness): an
/// aborted execution must not unwind from here (the handle's destructor would run the arena's release code with the
/// hooks switched off); the thread goes on to its next atomic access and is aborted there
fn do_act_ex(a: Act, quiet: bool) {
  match a {
    Act::Go => {}
    Act::Abort => {
      if !quiet {
        std::panic::panic_any(Abort)
      }
    }
    Act::Switch => {
      generator::yield_with(());
      if !quiet && ENG.with(|e| e.borrow().aborting) {
        std::panic::panic_any(Abort)
      }
    }
  }
}

fn state_hash(e: &Eng) -> u64 {
  // image words + header + per-thread progress
  let mut h: u64 = 0xcbf29ce484222325;
  let mix = |h: &mut u64, x: u64| {
    *h ^= x;
    *h = h.wrapping_mul(0x100000001b3);
    *h ^= *h >> 29;
  };
  unsafe {
    let p = e.rg.base as *const u64;
    for i in 0..e.rg.cap / 8 {
      mix(&mut h, std::ptr::read_volatile(p.add(i)));
    }
    let hp = e.rg.header as *const u64;
    for i in 0..e.rg.header_len / 8 {
      mix(&mut h, std::ptr::read_volatile(hp.add(i)));
    }
  }
  for t in 0..e.n {
    mix(&mut h, (e.op_idx[t] as u64) << 32 | e.op_events[t]);
  }
  mix(&mut h, e.cur as u64);
  h
}

fn sched_point() {
  sched_point_ex(false)
}

fn sched_point_ex(quiet: bool) {
  let act = ENG.with(|e| {
    let mut e = e.borrow_mut();
    if e.observer {
      return Act::Go;
    }
    if e.aborting {
      return if std::thread::panicking() { Act::Go } else { Act::Abort };
    }
    e.events += 1;
    let cur = e.cur;
    e.op_events[cur] += 1;
    if e.events > EVENT_CAP {
      e.cap_hit = true;
      e.aborting = true;
      return Act::Abort;
    }
    if let Some((t, b)) = e.solo {
      debug_assert_eq!(t, cur);
      if b <= 1 {
        hang(&mut e, "solo-budget");
        return Act::Abort;
      }
      e.solo = Some((t, b - 1));
      return Act::Go;
    }
    if let St::Parked(_) = e.st[cur] {
      e.st[cur] = St::Runnable;
    }
    // fairness: a thread that ran FAIR_SLICE events in a row hands over (no choice, no cost)
    e.consecutive += 1;
    if e.consecutive > FAIR_SLICE && !e.por {
      e.consecutive = 0;
      let n = e.n;
      for k in 1..n {
        let t = (cur + k) % n;
        if enabled(&e, t) {
          e.next = t;
          return Act::Switch;
        }
      }
    }
    match decide(&mut e, true, true) {
      Some(nx) if nx != cur => {
        if e.in_op[cur] {
          e.switches_in_op += 1;
        }
        e.consecutive = 0;
        e.next = nx;
        Act::Switch
      }
      _ => {
        if e.aborting {
          Act::Abort
        } else {
          Act::Go
        }
      }
    }
  });
  do_act_ex(act, quiet);
}

/// record a hang: every unfinished thread waits for a write nobody will make
fn hang(e: &mut Eng, how: &str) {
  let fl = e.fl.map(|f| format!("{:?}", f)).unwrap_or_default();
  let mut parts = vec![];
  let mut sigs = vec![];
  for t in 0..e.n {
    if e.st[t] == St::Finished {
      continue;
    }
    let (off, val, file, line) = e.last_load[t];
    let f = fn_of(file, line);
    let size = (val >> 32) as u32;
    // who wrote the awaited word last, and where
    let w = e.last_write_to.iter().rev().find(|w| w.0 == off).cloned();
    let state = if size == 0 { "marked" } else { "unmarked" };
    let wf = w.as_ref().map(|w| fn_of(w.2, w.3)).unwrap_or_else(|| "?".into());
    parts.push(format!("thread {} (op #{}) spins in {} on word@{}={:#x} ({}), last written by thread {:?} in {}", t, e.op_idx[t], f, off, val, state, w.as_ref().map(|w| w.1), wf));
    sigs.push(format!("{}<-{}:{}", f, wf, state));
  }
  sigs.sort();
  sigs.dedup();
  e.viol.push(V { class: "hang".into(), sig: format!("hang:{}:{}", fl, sigs.join("+")), msg: format!("non-termination ({}): {}", how, parts.join("; ")) });
  e.aborting = true;
}

struct H;
static HK: H = H;

impl Hook for H {
  fn before(&self, ev: &Event) {
    let bad = ENG.with(|e| {
      let mut e = e.borrow_mut();
      if e.observer || std::thread::panicking() {
        return false;
      }
      let a = ev.addr;
      let sz = ev.size as usize;
      let in_img = a >= e.rg.base && a + sz <= e.rg.base + e.rg.cap;
      let in_box = a >= e.rg.memory_box && a + sz <= e.rg.memory_box + e.rg.memory_box_len;
      if e.torn_down && (in_img || in_box) {
        let cur = e.cur;
        let f = fn_of(ev.file, ev.line);
        let tb = e.teardown_by;
        e.viol.push(V { class: "use-after-free".into(), sig: format!("use-after-free:{}", f), msg: format!("thread {} accesses arena memory in {} ({}:{}) after the backing memory was released by thread {:?}", cur, f, ev.file, ev.line, tb) });
        e.aborting = true;
        return true;
      }
      if !(in_img || in_box) || a % sz != 0 {
        let cur = e.cur;
        let f = fn_of(ev.file, ev.line);
        let rel = a as i128 - e.rg.base as i128;
        // provenance: did this thread just load the offset from a live handle's bytes?
        let (lo, lv, _, _) = e.last_load[cur];
        let from_live = e.live.iter().any(|l| lo < l.m.0 + l.m.1 && lo + 8 > l.m.0);
        e.viol.push(V { class: "wild-access".into(), sig: format!("wild-access:{}:{}", f, if from_live { "offset-from-live-bytes" } else { "other" }), msg: format!("thread {} {:?} at arena{:+} ({} bytes) in {} ({}:{}); last word it loaded: @{}={:#x}", cur, ev.kind, rel, sz, f, ev.file, ev.line, lo, lv) });
        e.aborting = true;
        return true;
      }
      if !e.aborting {
        capture_image(&e);
      }
      let write = !matches!(ev.kind, Kind::Load);
      announce(&mut e, Fp::one(a, sz, write));
      false
    });
    if bad {
      std::panic::panic_any(Abort);
    }
    sched_point();
    // other threads may have run in between: the memory may be gone by now
    let gone = ENG.with(|e| {
      let mut e = e.borrow_mut();
      if e.observer || !e.torn_down || e.aborting || std::thread::panicking() {
        return false;
      }
      let a = ev.addr;
      let sz = ev.size as usize;
      let in_img = a >= e.rg.base && a + sz <= e.rg.base + e.rg.cap;
      let in_box = a >= e.rg.memory_box && a + sz <= e.rg.memory_box + e.rg.memory_box_len;
      if in_img || in_box {
        let cur = e.cur;
        let f = fn_of(ev.file, ev.line);
        let tb = e.teardown_by;
        e.viol.push(V { class: "use-after-free".into(), sig: format!("use-after-free:{}", f), msg: format!("thread {} accesses arena memory in {} ({}:{}) after the backing memory was released by thread {:?}", cur, f, ev.file, ev.line, tb) });
        e.aborting = true;
        return true;
      }
      false
    });
    if gone {
      std::panic::panic_any(Abort);
    }
  }

  fn after(&self, ev: &Event, old: u64, new: u64, ok: bool) {
    ENG.with(|e| {
      let mut e = e.borrow_mut();
      if e.observer {
        return;
      }
      let cur = e.cur;
      let in_img = ev.addr >= e.rg.base && ev.addr < e.rg.base + e.rg.cap;
      // location key: image offset, or (1<<40 | offset inside the Memory box) for the plain-layout header / refs
      let off = if in_img { ev.addr - e.rg.base } else { (1usize << 40) | ev.addr.wrapping_sub(e.rg.memory_box) };
      let wrote = match ev.kind {
        Kind::Load => false,
        Kind::Cas => ok,
        _ => true,
      };
      if let Kind::Load = ev.kind {
        e.last_load[cur] = (off, old, ev.file, ev.line);
      }
      if e.precise && cur < e.rs.len() {
        e.rs[cur].push((ev.addr, ev.size as usize));
        if wrote && old != new {
          note_write(&mut e, ev.addr, ev.size as usize);
          e.dirty[cur] = true;
        }
      }
      {
        let mut hh = e.hist[cur];
        mix(&mut hh, (ev.kind as u64) << 60 ^ (off as u64) << 1 ^ ok as u64);
        mix(&mut hh, old);
        mix(&mut hh, new ^ ((ev.line as u64) << 40));
        e.hist[cur] = hh;
      }
      if wrote {
        if old != new {
          e.wepoch += 1;
          if e.solo.is_some() {
            // progress: others may be enabled again
            e.solo = None;
          }
        }
        if e.last_write_to.len() >= 64 {
          e.last_write_to.remove(0);
        }
        e.last_write_to.push((off, cur, ev.file, ev.line, old, new));
        if in_img {
          let hit = e.live.iter().find(|l| off < l.m.0 + l.m.1 && off + ev.size as usize > l.m.0).cloned();
          if let Some(l) = hit {
            let f = fn_of(ev.file, ev.line);
            e.viol.push(V {
              class: "live-write".into(),
              sig: format!("live-write:{}:{:?}:victim-{}", f, ev.kind, l.kind),
              msg: format!("thread {} {:?} in {} ({}:{}) changed @{} {:#x} -> {:#x} inside live {} handle [{},{}) of thread {}", cur, ev.kind, f, ev.file, ev.line, off, old, new, l.kind, l.m.0, l.m.0 + l.m.1, l.tid),
            });
          }
        }
      }
      let rd = e.pending_read.take();
      if let Some(hb) = e.hb.as_mut() {
        let mut out = vec![];
        hb.atomic_at(cur, off, ev.size as usize, ev.kind, ev.success, ev.failure, ok, ev.file, ev.line, rd, old, new, &mut out);
        for (sig, msg) in out {
          e.viol.push(V { class: "hb-race".into(), sig, msg });
        }
      }
      if e.tracing {
        let s = format!("{:?} {}:{} @{} {:#x}->{:#x} ok={} [{:?}/{:?}]", ev.kind, fn_of(ev.file, ev.line), ev.line, off as i64, old, new, ok, ev.success, ev.failure);
        e.trace.push(TraceEv { tid: cur, what: s });
      }
    });
  }

  fn load_value(&self, ev: &Event, latest: u64) -> u64 {
    ENG.with(|e| {
      let mut e = e.borrow_mut();
      e.pending_read = None;
      // (the drain is a sequential continuation after all threads were joined: everything happens-before it)
      if e.observer || e.aborting || e.solo.is_some() || e.draining || e.stale_max == 0 || e.stale >= e.stale_max || std::thread::panicking() {
        return latest;
      }
      let cur = e.cur;
      let in_img = ev.addr >= e.rg.base && ev.addr < e.rg.base + e.rg.cap;
      let off = if in_img { ev.addr - e.rg.base } else { (1usize << 40) | ev.addr.wrapping_sub(e.rg.memory_box) };
      let Some(hb) = e.hb.as_mut() else { return latest };
      let cands = hb.load_candidates(cur, off, ev.success, latest);
      if cands.len() < 2 {
        return latest;
      }
      let c = decide_value(&mut e, cands.len().min(255), 1);
      if c == 0 {
        return latest;
      }
      e.stale += 1;
      // a decision taken on an old value is not a reason to park: the next iteration may read a newer one
      e.yield_epoch[cur] = u64::MAX;
      e.pending_read = Some(cands[c].0);
      if e.tracing {
        let w = format!("stale read: message #{} ({:#x}) instead of the newest ({:#x})", cands[c].0, cands[c].1, latest);
        e.trace.push(TraceEv { tid: cur, what: w });
      }
      cands[c].1
    })
  }

  fn weak_cas_fails(&self, _ev: &Event) -> bool {
    ENG.with(|e| {
      let mut e = e.borrow_mut();
      if e.observer || e.aborting || e.solo.is_some() || e.draining || e.spur_max == 0 || e.spur >= e.spur_max || std::thread::panicking() {
        return false;
      }
      let c = decide_value(&mut e, 2, 2);
      if c == 0 {
        return false;
      }
      e.spur += 1;
      let cur = e.cur;
      e.yield_epoch[cur] = u64::MAX;
      if e.tracing {
        e.trace.push(TraceEv { tid: cur, what: "spurious failure of compare_exchange_weak".into() });
      }
      true
    })
  }

  fn spin(&self, snooze: bool) {
    if !snooze {
      return;
    }
    let act = ENG.with(|e| {
      let mut e = e.borrow_mut();
      if e.observer {
        return Act::Go;
      }
      if e.aborting {
        return if std::thread::panicking() { Act::Go } else { Act::Abort };
      }
      if e.solo.is_some() {
        return Act::Go;
      }
      let cur = e.cur;
      if e.tracing {
        e.trace.push(TraceEv { tid: cur, what: "snooze".into() });
      }
      // park only when the whole iteration was computed from a memory image that is still current
      let mut quiet = e.yield_epoch[cur] == e.wepoch;
      e.yield_epoch[cur] = e.wepoch;
      if e.precise {
        // (sleep-set mode) ... from words that are all still what this thread read
        quiet = !e.dirty[cur];
        e.dirty[cur] = false;
        if !quiet {
          // (a parked thread keeps its read set: a change to one of those words wakes it up)
          e.rs[cur].clear();
        }
        announce(&mut e, Fp::default());
      }
      if quiet {
        let ep = e.wepoch;
        e.st[cur] = St::Parked(ep);
        match decide(&mut e, false, false) {
          Some(nx) => {
            if e.in_op[cur] {
              e.switches_in_op += 1;
            }
            e.consecutive = 0;
            e.next = nx;
            Act::Switch
          }
          None => {
            // everybody who is left waits: run this thread solo to confirm
            e.st[cur] = St::Runnable;
            e.solo = Some((cur, SOLO_BUDGET));
            Act::Go
          }
        }
      } else {
        // a voluntary yield: switching away is free
        match decide(&mut e, true, false) {
          Some(nx) if nx != cur => {
            if e.in_op[cur] {
              e.switches_in_op += 1;
            }
            e.consecutive = 0;
            e.next = nx;
            Act::Switch
          }
          _ => {
            if e.aborting {
              Act::Abort
            } else {
              Act::Go
            }
          }
        }
      }
    });
    do_act(act);
    // a thread that was parked and has been woken starts a fresh iteration of its wait loop
    ENG.with(|e| {
      let mut e = e.borrow_mut();
      let cur = e.cur;
      if e.precise && cur < e.rs.len() && !e.aborting {
        e.rs[cur].clear();
        e.dirty[cur] = false;
      }
    });
  }

  fn plain_write(&self, addr: usize, len: usize) {
    if len > 0 {
      visible_point(Fp::one(addr, len, true));
    }
    let bad = ENG.with(|e| {
      let mut e = e.borrow_mut();
      if e.observer || len == 0 || e.aborting {
        return false;
      }
      let cur = e.cur;
      if addr < e.rg.base || addr + len > e.rg.base + e.rg.cap {
        let rel = addr as i128 - e.rg.base as i128;
        let cap = e.rg.cap;
        e.viol.push(V { class: "wild-access".into(), sig: "wild-access:zeroing".into(), msg: format!("thread {} zeroes {} bytes at arena offset {} (capacity {}): outside the arena", cur, len, rel, cap) });
        // the write has not happened yet (the hook reports first) and is left out (`skip_plain_write`): it would
        // damage the explorer's own heap.  The execution goes on, so that observers see the state it leaves.
        e.skip_write = true;
        return true;
      }
      false
    });
    if bad {
      return;
    }
    ENG.with(|e| {
      let mut e = e.borrow_mut();
      if e.observer || len == 0 {
        return;
      }
      let cur = e.cur;
      let off = addr - e.rg.base;
      note_write(&mut e, addr, len);
      let hit = e.live.iter().find(|l| off < l.m.0 + l.m.1 && off + len > l.m.0).cloned();
      if let Some(l) = hit {
        e.viol.push(V { class: "live-write".into(), sig: format!("live-write:zeroing:victim-{}", l.kind), msg: format!("thread {} zeroes [{},{}) which intersects live {} handle [{},{}) of thread {}", cur, off, off + len, l.kind, l.m.0, l.m.0 + l.m.1, l.tid) });
      }
      if let Some(hb) = e.hb.as_mut() {
        let mut out = vec![];
        hb.plain(cur, off, len, true, "arena-zeroing", &mut out);
        for (sig, msg) in out {
          e.viol.push(V { class: "hb-race".into(), sig, msg });
        }
      }
      if e.tracing {
        e.trace.push(TraceEv { tid: cur, what: format!("zero [{},{})", off, off + len) });
      }
    });
  }

  fn skip_plain_write(&self, _addr: usize, _len: usize) -> bool {
    ENG.with(|e| std::mem::take(&mut e.borrow_mut().skip_write))
  }

  fn teardown(&self, _addr: usize, _len: usize) {
    visible_point(Fp::write_all());
    ENG.with(|e| {
      let mut e = e.borrow_mut();
      if e.observer {
        return;
      }
      let cur = e.cur;
      e.teardowns += 1;
      e.torn_down = true;
      e.teardown_by = Some(cur);
      if e.values > 0 {
        let v = e.values;
        e.viol.push(V { class: "teardown-early".into(), sig: "teardown-early:values-alive".into(), msg: format!("thread {} releases the backing memory while {} other arena value(s) (clones / owned handles) are still alive", cur, v) });
      }
      if let Some(hb) = e.hb.as_mut() {
        let mut out = vec![];
        hb.teardown(cur, &mut out);
        for (sig, msg) in out {
          e.viol.push(V { class: "hb-race".into(), sig, msg });
        }
      }
      if e.tracing {
        e.trace.push(TraceEv { tid: cur, what: "teardown".into() });
      }
    });
  }
}

// ---------------------------------------------------------------------------------------------
// the logical threads

struct Shared {
  arena: *const Arena,
  pre: Vec<LiveH>,
  base: *mut u8,
  dof: usize,
}
unsafe impl Send for Shared {}
unsafe impl Sync for Shared {}

fn tr(tid: usize, s: impl FnOnce() -> String) {
  ENG.with(|e| {
    let mut e = e.borrow_mut();
    if e.tracing {
      let w = s();
      e.trace.push(TraceEv { tid, what: w });
    }
  });
}

/// registration of a fresh handle: serialised with the return of the allocation call
fn reg_alloc(tid: usize, sh: &Shared, m: Meta4, kind: &'static str, pat: u8) -> LiveH {
  reg_alloc_req(tid, sh, m, kind, pat, None)
}

/// `req` = (requested extra bytes, fixed size, alignment) of the call, for the C03 oracle
fn reg_alloc_req(tid: usize, sh: &Shared, m: Meta4, kind: &'static str, pat: u8, req: Option<(u32, u32, u32)>) -> LiveH {
  let (off, cap, _boff, _bcap) = m;
  {
    // the registration reads the cursor and fills the range with the owner's pattern
    let hdr = ENG.with(|e| e.borrow().rg.header);
    visible_point(Fp::two((sh.base as usize + off, cap, true), (hdr + 8, 4, false)));
  }
  let l = ENG.with(|e| {
    let mut e = e.borrow_mut();
    if let Some((n, fixed, align)) = req {
      let ok = match kind {
        "bytes" | "owned-bytes" => cap == n as usize,
        "typed" => cap == fixed as usize && off % align as usize == 0,
        _ => cap >= (fixed + n) as usize && off % align as usize == 0,
      };
      if !ok {
        e.viol.push(V { class: "capacity-or-alignment".into(), sig: format!("capacity-or-alignment:{}", kind), msg: format!("thread {} requested {} (extra {}, size {}, align {}) and got offset {} capacity {}", tid, kind, n, fixed, align, off, cap) });
      }
    }
    // cursor straight from memory (observer mode): header layout is repr(C) {sentinel u64, allocated u32,..}
    let allocated = unsafe { std::ptr::read_volatile((e.rg.header + 8) as *const u32) } as usize;
    for l in e.live.clone() {
      if cap > 0 && l.m.1 > 0 && off < l.m.0 + l.m.1 && l.m.0 < off + cap {
        e.viol.push(V { class: "overlap".into(), sig: format!("overlap:{}-vs-{}", kind, l.kind), msg: format!("thread {} got [{},{}) ({}) overlapping live [{},{}) ({}) of thread {}", tid, off, off + cap, kind, l.m.0, l.m.0 + l.m.1, l.kind, l.tid) });
        if matches!(kind, "bytes" | "owned-bytes") && !e.draining {
          // C08: the owner of the other handle is a running thread (a worker, or the thread that started them) and may
          // write its own bytes at any moment, in particular between the arena's zeroing and the return of this call
          e.viol.push(V { class: "not-zeroed".into(), sig: "not-zeroed:shared-with-a-live-handle".into(), msg: format!("thread {} got [{},{}) from alloc_bytes while [{},{}) is a live handle of thread {}: whatever that owner writes there between the zeroing and the return is what the new owner reads", tid, off, off + cap, l.m.0, l.m.0 + l.m.1, l.tid) });
        }
      }
    }
    if cap > 0 && (off < sh.dof || off + cap > allocated || off + cap > e.rg.cap) {
      e.viol.push(V { class: "out-of-bounds".into(), sig: format!("out-of-bounds:{}", kind), msg: format!("thread {} got [{},{}) outside [data_offset {}, allocated {})", tid, off, off + cap, sh.dof, allocated) });
    }
    {
      let mut hh = e.hist[tid];
      mix(&mut hh, (off as u64) << 32 | cap as u64);
      mix(&mut hh, (m.2 as u64) << 32 | m.3 as u64);
      e.hist[tid] = hh;
    }
    let path = if off + cap == allocated { "fresh" } else { "recycled" };
    let l = LiveH { tid, m, pat, kind, path };
    e.live.push(l.clone());
    if let Some(hb) = e.hb.as_mut() {
      let mut out = vec![];
      hb.plain(tid, off, cap, true, "new-owner-first-write", &mut out);
      for (sig, msg) in out {
        e.viol.push(V { class: "hb-race".into(), sig, msg });
      }
    }
    if e.tracing {
      e.trace.push(TraceEv { tid, what: format!("returned {} {:?}", kind, m) });
    }
    l
  });
  if cap > 0 && off + cap <= ENG.with(|e| e.borrow().rg.cap) {
    // C08: what alloc_bytes returns reads as zero at the moment it is returned (earlier owners left patterns)
    if matches!(kind, "bytes" | "owned-bytes") {
      let s = unsafe { std::slice::from_raw_parts(sh.base.add(off), cap) };
      if let Some(i) = s.iter().position(|b| *b != 0) {
        ENG.with(|e| e.borrow_mut().viol.push(V { class: "not-zeroed".into(), sig: format!("not-zeroed:{}", kind), msg: format!("thread {} got [{},{}) from alloc_bytes with byte {:#04x} at offset {}", tid, off, off + cap, s[i], off + i) }));
      }
    }
    unsafe { std::ptr::write_bytes(sh.base.add(off), pat, cap) };
    ENG.with(|e| note_write(&mut e.borrow_mut(), sh.base as usize + off, cap));
  }
  l
}

fn check_pat(sh: &Shared, l: &LiveH, when: &str) {
  let (off, cap, ..) = l.m;
  let rcap = ENG.with(|e| e.borrow().rg.cap);
  if cap == 0 || off + cap > rcap {
    return;
  }
  let s = unsafe { std::slice::from_raw_parts(sh.base.add(off), cap) };
  if s.iter().any(|b| *b != l.pat) {
    ENG.with(|e| {
      let mut e = e.borrow_mut();
      // attribute to the last recorded write into the range
      let w = e.last_write_to.iter().rev().find(|w| w.0 < off + cap && w.0 + 8 > off).cloned();
      let by = w.map(|w| format!("thread {} in {}", w.1, fn_of(w.2, w.3))).unwrap_or_else(|| "unknown (plain write)".into());
      e.viol.push(V { class: "corrupt".into(), sig: format!("corrupt:{}", l.kind), msg: format!("bytes of live {} handle [{},{}) of thread {} changed ({}): {:x?}; last write there: {}", l.kind, off, off + cap, l.tid, when, s, by) });
    });
  }
}

fn release(tid: usize, sh: &Shared, a: &Arena, l: &LiveH) {
  release_with(tid, sh, l, || {
    if l.m.3 > 0 {
      unsafe { a.dealloc(l.m.2 as u32, l.m.3 as u32) };
    }
  })
}

/// the release proper is `how`: an explicit `dealloc` of the buffer extent, or the drop of the handle
fn release_with(tid: usize, sh: &Shared, l: &LiveH, how: impl FnOnce()) {
  visible_point(Fp::one(sh.base as usize + l.m.0, l.m.1, false));
  check_pat(sh, l, "before its release");
  ENG.with(|e| {
    let mut e = e.borrow_mut();
    e.live.retain(|x| !(x.m == l.m && x.tid == l.tid));
    if let Some(hb) = e.hb.as_mut() {
      let mut out = vec![];
      hb.plain(tid, l.m.0, l.m.1, false, "owner-last-read", &mut out);
      for (sig, msg) in out {
        e.viol.push(V { class: "hb-race".into(), sig, msg });
      }
    }
    if e.tracing {
      e.trace.push(TraceEv { tid, what: format!("release {:?}", l.m) });
    }
  });
  how();
}

fn values(d: i64) {
  ENG.with(|e| e.borrow_mut().values += d);
}

fn begin_op(tid: usize, k: usize) {
  ENG.with(|e| {
    let mut e = e.borrow_mut();
    e.op_idx[tid] = k;
    let mut hh = e.hist[tid];
    mix(&mut hh, 0xbe91 ^ (k as u64) << 16);
    e.hist[tid] = hh;
    e.in_op[tid] = true;
    e.op_events[tid] = 0;
    let w = e.wepoch;
    e.yield_epoch[tid] = w;
    if e.precise && tid < e.rs.len() {
      e.rs[tid].clear();
      e.dirty[tid] = false;
    }
  });
}
fn end_op(tid: usize) {
  ENG.with(|e| {
    let mut e = e.borrow_mut();
    e.in_op[tid] = false;
    let mut hh = e.hist[tid];
    mix(&mut hh, 0xe0d);
    e.hist[tid] = hh;
    let n = e.op_events[tid];
    if n > e.max_op_events {
      e.max_op_events = n;
    }
  });
}

/// Arena values and owned handles of one logical thread.  When the execution is aborted (the
/// thread unwinds) they are leaked instead of dropped: their destructors would call back into
/// the scheduler and possibly touch memory that is already gone.
struct Held {
  mine: Option<Arena>,
  clones: Vec<Arena>,
  owned: Vec<(LiveH, rarena_allocator::BytesMut<Arena>)>,
  /// borrowed handles this thread keeps: a release is the drop of the handle itself (its own `Drop` decides
  /// what is given back)
  own: Vec<(LiveH, HB)>,
}

/// a borrowed handle of one of the kinds the programs allocate
enum HB {
  Bytes(rarena_allocator::BytesRefMut<'static, Arena>),
  U64(rarena_allocator::RefMut<'static, u64, Arena>),
  U128(rarena_allocator::RefMut<'static, u128, Arena>),
}
impl HB {
  fn detach(&mut self) {
    unsafe {
      match self {
        HB::Bytes(b) => b.detach(),
        HB::U64(b) => b.detach(),
        HB::U128(b) => b.detach(),
      }
    }
  }
}
impl Drop for Held {
  fn drop(&mut self) {
    if std::thread::panicking() {
      std::mem::forget(self.mine.take());
      std::mem::forget(std::mem::take(&mut self.clones));
      std::mem::forget(std::mem::take(&mut self.owned));
      std::mem::forget(std::mem::take(&mut self.own));
    }
  }
}

fn run_thread(tid: usize, sh: &Shared, prog: &[TOp], mine: Option<Arena>) {
  let mut held = Held { mine, clones: vec![], owned: vec![], own: vec![] };
  let Held { mine, clones, owned, own } = &mut held;
  for (k, op) in prog.iter().enumerate() {
    begin_op(tid, k);
    // the arena value this thread works through
    let a: &Arena = match (&*mine, clones.last()) {
      (_, Some(c)) => c,
      (Some(m), None) => m,
      (None, None) => match owned.last() {
        // no arena value of its own any more
        _ if !sh.arena.is_null() => unsafe { &*sh.arena },
        _ => {
          end_op(tid);
          continue;
        }
      },
    };
    let a: &Arena = unsafe { &*(a as *const Arena) };
    match *op {
      TOp::B(n) => match a.alloc_bytes(n) {
        Ok(b) => {
          let l = reg_alloc_req(tid, sh, meta_of(&b), "bytes", 0xA0 + tid as u8, Some((n, 0, 1)));
          own.push((l, HB::Bytes(b)));
        }
        Err(_) => tr(tid, || format!("B{n} failed")),
      },
      TOp::U64 => match unsafe { a.alloc::<u64>() } {
        Ok(b) => {
          let l = reg_alloc_req(tid, sh, meta_of(&b), "typed", 0xB0 + tid as u8, Some((0, 8, 8)));
          own.push((l, HB::U64(b)));
        }
        Err(_) => tr(tid, || "U64 failed".into()),
      },
      TOp::Probe => {
        let (cap, dof) = (a.capacity(), a.data_offset());
        let al = a.allocated();
        let mut bad = vec![];
        if al > cap || al < dof {
          bad.push(format!("allocated() = {} outside [data_offset {}, capacity {}]", al, dof, cap));
        }
        let aml = a.allocated_memory().len();
        if aml > cap {
          bad.push(format!("allocated_memory() has {} bytes, capacity {}", aml, cap));
        }
        if a.remaining() > cap - dof {
          bad.push(format!("remaining() = {} with capacity {} and data_offset {}", a.remaining(), cap, dof));
        }
        if a.get_u8(cap).is_ok() {
          bad.push(format!("get_u8(capacity() = {}) returned Ok", cap));
        }
        if a.get_u64_le(cap - 7).is_ok() {
          bad.push(format!("get_u64_le({}) returned Ok although it ends beyond the capacity {}", cap - 7, cap));
        }
        if !bad.is_empty() {
          ENG.with(|e| {
            let mut e = e.borrow_mut();
            for m in bad {
              e.viol.push(V { class: "reader-bounds".into(), sig: "reader-bounds:concurrent".into(), msg: format!("thread {}: {}", tid, m) });
            }
          });
        }
      }
      TOp::T16 => match unsafe { a.alloc::<u128>() } {
        Ok(b) => {
          let l = reg_alloc_req(tid, sh, meta_of(&b), "typed", 0xB8 + tid as u8, Some((0, 16, 16)));
          own.push((l, HB::U128(b)));
        }
        Err(_) => tr(tid, || "T16 failed".into()),
      },
      TOp::AB(n) => match a.alloc_aligned_bytes::<u64>(n) {
        Ok(b) => {
          let l = reg_alloc_req(tid, sh, meta_of(&b), "aligned-bytes", 0xD0 + tid as u8, Some((n, 8, 8)));
          own.push((l, HB::Bytes(b)));
        }
        Err(_) => tr(tid, || format!("AB{n} failed")),
      },
      TOp::BO(n) => match a.alloc_bytes_owned(n) {
        Ok(b) => {
          values(1);
          let l = reg_alloc(tid, sh, meta_of(&b), "owned-bytes", 0x90 + tid as u8);
          owned.push((l, b));
        }
        Err(_) => tr(tid, || format!("BO{n} failed")),
      },
      TOp::ABO(n) => match a.alloc_aligned_bytes_owned::<u64>(n) {
        Ok(b) => {
          values(1);
          let l = reg_alloc_req(tid, sh, meta_of(&b), "owned-aligned-bytes", 0x98 + tid as u8, Some((n, 8, 8)));
          owned.push((l, b));
        }
        Err(_) => tr(tid, || format!("ABO{n} failed")),
      },
      TOp::DropOwn => {
        if let Some((l, b)) = owned.pop() {
          visible_point(Fp::one(sh.base as usize + l.m.0, l.m.1, false));
          check_pat(sh, &l, "before its release");
          ENG.with(|e| {
            let mut e = e.borrow_mut();
            e.live.retain(|x| !(x.m == l.m && x.tid == l.tid));
            if let Some(hb) = e.hb.as_mut() {
              let mut out = vec![];
              hb.plain(tid, l.m.0, l.m.1, false, "owner-last-read", &mut out);
              for (sig, msg) in out {
                e.viol.push(V { class: "hb-race".into(), sig, msg });
              }
            }
          });
          values(-1);
          drop(b);
        } else if let Some((l, h)) = own.pop() {
          release_with(tid, sh, &l, move || drop(h));
        }
      }
      TOp::DropPre(i) => {
        if let Some(l) = sh.pre.get(i as usize) {
          release(tid, sh, a, l);
        }
      }
      TOp::Discard => {
        let _ = a.discard_freelist();
      }
      TOp::CloneArena => {
        clones.push(a.clone());
        values(1);
      }
      TOp::Lit0 => a.set_minimum_segment_size(24),
      TOp::Lit1 => a.increase_discarded(1),
      TOp::Lit2 => {
        let v = a.discarded() as u64;
        ENG.with(|e| e.borrow_mut().obs.push((tid as u8, 2, v)));
      }
      TOp::Lit3 => {
        let v = a.minimum_segment_size() as u64;
        ENG.with(|e| e.borrow_mut().obs.push((tid as u8, 3, v)));
      }
      TOp::DropArena => {
        // handles that are kept for ever must not outlive the value they borrow: they are detached (they stay
        // registered as live ranges)
        for (_, h) in own.iter_mut() {
          h.detach();
        }
        if let Some(c) = clones.pop() {
          values(-1);
          drop(c);
        } else if let Some(m) = mine.take() {
          values(-1);
          drop(m);
        }
      }
    }
    end_op(tid);
  }
  // end of thread: owned handles and arena values this thread still holds are dropped here; borrowed handles it
  // kept are kept for ever (detached)
  begin_op(tid, prog.len());
  for (_, mut h) in own.drain(..) {
    h.detach();
    drop(h);
  }
  for (l, b) in owned.drain(..).rev() {
    visible_point(Fp::one(sh.base as usize + l.m.0, l.m.1, false));
    ENG.with(|e| e.borrow_mut().live.retain(|x| !(x.m == l.m && x.tid == l.tid)));
    let mut b = b;
    unsafe { b.detach() };
    values(-1);
    drop(b);
  }
  while let Some(c) = clones.pop() {
    values(-1);
    drop(c);
  }
  if let Some(m) = mine.take() {
    values(-1);
    drop(m);
  }
  end_op(tid);
}

// ---------------------------------------------------------------------------------------------
// one execution

pub struct ExecOut {
  pub choices: Vec<Choice>,
  pub viol: Vec<V>,
  pub events: u64,
  pub switches_in_op: u32,
  pub state_hashes: Vec<u64>,
  pub outcome: u64,
  pub trace: Vec<String>,
  pub cap_hit: bool,
  pub teardowns: u32,
  pub max_op_events: u64,
  pub choice_keys: Vec<u64>,
  pub obs: Vec<(u8, u8, u64)>,
  /// sleep-set mode: the choice point from which this execution only repeated an explored one
  pub blocked_at: Option<usize>,
  /// what every logical thread observed, rolled into one hash per thread
  pub hist: Vec<u64>,
}

pub struct ExecOpts {
  pub tracing: bool,
  pub hash_states: bool,
  pub hb: bool,
  pub drain: bool,
  /// compute a state key at every choice point (for the state cache)
  pub cache: bool,
  /// the exploration is preemption-bounded (then the count is part of the state)
  pub bounded: bool,
  /// at most this many loads read a message that is not the newest (release/acquire view model; needs `hb`)
  pub stale: u8,
  /// at most this many `compare_exchange_weak` calls that would succeed fail spuriously
  pub spur: u8,
  /// sleep-set partial-order reduction (no preemption bound)
  pub por: bool,
}

struct GenPool {
  gens: Vec<Generator<'static, (), ()>>,
}

thread_local! {
  static POOL: RefCell<GenPool> = RefCell::new(GenPool { gens: vec![] });
}

/// one distinct memory image seen at a scheduling point, with the ranges that were live (returned to a thread
/// and not yet given back) at that moment: what the file would hold had the process been killed there
pub struct CrashImg {
  pub img: Vec<u8>,
  pub lives: Vec<(Meta4, u8)>,
  pub sched: Vec<u8>,
  pub event: u64,
}

#[derive(Default)]
pub struct ImgState {
  pub seen: std::collections::HashSet<u64>,
  pub out: Vec<CrashImg>,
}

thread_local! {
  /// location-precise parking outside the sleep-set mode (self-test of the reduction only)
  pub static PRECISE_PARK: std::cell::Cell<bool> = const { std::cell::Cell::new(false) };
}

thread_local! {
  /// Some(..) while the outcomes of the executions of this OS thread are being collected (self-test of the reduction):
  /// one hash per execution over the final memory and everything each thread observed
  pub static OUTCOMES: RefCell<Option<std::collections::HashSet<u64>>> = const { RefCell::new(None) };
}

thread_local! {
  /// Some(..) while crash images are being collected on this OS thread (C06, concurrent part)
  pub static IMG: RefCell<Option<ImgState>> = const { RefCell::new(None) };
}

fn capture_image(e: &Eng) {
  IMG.with(|i| {
    let mut i = i.borrow_mut();
    let Some(st) = i.as_mut() else { return };
    if e.torn_down {
      return;
    }
    let mem = unsafe { std::slice::from_raw_parts(e.rg.base as *const u8, e.rg.cap) };
    let mut lives: Vec<(Meta4, u8)> = e.live.iter().map(|l| (l.m, l.pat)).collect();
    lives.sort();
    let k = hash_of(&(mem, &lives));
    if st.seen.insert(k) {
      st.out.push(CrashImg { img: mem.to_vec(), lives, sched: e.choices.iter().map(|c| c.chosen).collect(), event: e.events });
    }
  });
}

pub fn run_one(h: &Harness, prefix: &[u8], o: &ExecOpts) -> ExecOut {
  let n = h.progs.len();
  let cfg = Cfg { fl: h.fl, backend: Backend::Vec, unify: h.unify, reserved: h.reserved, min_seg: h.min_seg, max_align: 16, cap: h.cap, magic: 0, file_offset: 0, retries: 5, via_clone: false, lock_meta: false };
  let arena: Arena = Options::new().with_capacity(h.cap).with_unify(h.unify).with_freelist(h.fl.to()).with_minimum_segment_size(h.min_seg).with_maximum_alignment(16).with_reserved(h.reserved).alloc::<Arena>().expect("arena");
  if h.reserved > 0 {
    for (i, b) in unsafe { arena.reserved_slice_mut() }.iter_mut().enumerate() {
      *b = 0xE0 | (i as u8 & 0x0f);
    }
  }
  let dof = cfg.data_offset();
  let base = arena.raw_mut_ptr();
  // ---- initial shape (no hook installed: not part of the schedule)
  if h.odd > 0 {
    let mut b = arena.alloc_bytes(h.odd as u32).expect("init odd");
    unsafe { b.detach() };
  }
  let c_size = if h.shape & 8 != 0 { 56 } else { 40 };
  let sizes = [40u32, 40, c_size, 24, 24];
  let tail_mode = h.shape & 32 != 0;
  // `odd` also puts the cursor itself at that residue (the capacity is a multiple of 8 in the unified layout):
  // the fresh space left is `leave` plus the bytes up to the next multiple of 8
  let leave_amt = |remaining: u32| if h.leave > 0 { (h.leave + (8 - h.odd as u32 % 8) % 8).min(remaining) } else if h.shape & 4 != 0 { 24 } else { 0 };
  let mut blocks = vec![];
  let mut dm = (0, 0, 0, 0);
  if tail_mode {
    // the filler comes first, so that block e ends up next to the cursor (see `shape`, bit5)
    let r = arena.remaining() as u32;
    let rem = r - sizes.iter().sum::<u32>() - 8 - leave_amt(r);
    let mut d = arena.alloc_bytes(rem).expect("init fill");
    unsafe { d.detach() };
    dm = meta_of(&d);
  }
  for s in sizes {
    let mut b = arena.alloc_bytes(s).expect("init alloc");
    unsafe { b.detach() };
    blocks.push(meta_of(&b));
  }
  let mut tail_x = None;
  if tail_mode {
    let mut x = arena.alloc_bytes(8).expect("init tail");
    unsafe { x.detach() };
    tail_x = Some(meta_of(&x));
  } else {
    let r = arena.remaining() as u32;
    let rem = r - leave_amt(r);
    let mut d = arena.alloc_bytes(rem).expect("init fill");
    unsafe { d.detach() };
    dm = meta_of(&d);
  }
  let rg = arena.ranges();
  let mut pre: Vec<LiveH> = vec![];
  let mut live: Vec<LiveH> = vec![];
  let mut hb = if o.hb { Some(Hb::new(n + 1, rg.cap, fn_of)) } else { None };
  // blocks: a(0) b(1) c(2) d(3) e(4); b and d stay live and can be released by threads (pre[0], pre[1])
  for (k, m) in blocks.iter().enumerate() {
    let freeit = (k == 0 && h.shape & 1 != 0) || (k == 2 && h.shape & 2 != 0) || (k == 4 && h.shape & (16 | 32) != 0);
    let pat = 0xC0 + k as u8;
    unsafe { std::ptr::write_bytes(base.add(m.0), pat, m.1) };
    if freeit {
      unsafe { arena.dealloc(m.2 as u32, m.3 as u32) };
    } else {
      let l = LiveH { tid: n, m: *m, pat, kind: "bytes", path: "fresh" };
      live.push(l.clone());
      if k == 1 || k == 3 {
        pre.push(l);
      }
    }
  }
  unsafe { std::ptr::write_bytes(base.add(dm.0), 0xDD, dm.1) };
  live.push(LiveH { tid: n, m: dm, pat: 0xDD, kind: "bytes", path: "fresh" });
  if let Some(x) = tail_x {
    // released as the last allocation: the cursor moves back to the end of the free block e
    unsafe { arena.dealloc(x.2 as u32, x.3 as u32) };
  }
  // ---- optional last steps of the initialising thread
  if h.shape & 64 != 0 {
    // a used arena is cleared: nothing is live any more, the threads start from scratch
    unsafe { arena.clear().expect("clear") };
    live.clear();
    pre.clear();
  }
  if h.shape & 128 != 0 && h.leave > 0 {
    // a forward seek of the cursor: skips fresh space, gives nothing back
    unsafe { arena.rewind(rarena_allocator::ArenaPosition::End(h.leave / 2)) };
  }
  if let Some(hb) = hb.as_mut() {
    // everything the initialising thread did happens-before the start of every logical thread
    hb.init_done(n);
  }
  // ---- engine
  ENG.with(|e| {
    let mut e = e.borrow_mut();
    *e = Eng::default();
    e.n = n;
    e.st = vec![St::Runnable; n];
    e.prefix = prefix.to_vec();
    e.rg = rg;
    e.tracing = o.tracing;
    e.hash_states = o.hash_states;
    e.last_load = vec![(0, 0, "", 0); n + 1];
    e.yield_epoch = vec![0; n + 1];
    e.op_idx = vec![0; n + 1];
    e.in_op = vec![false; n + 1];
    e.op_events = vec![0; n + 1];
    e.live = live;
    e.hb = hb;
    e.fl = Some(h.fl);
    e.values = if h.own_arenas { n as i64 } else { 1 };
    e.hist = vec![0; n + 2];
    e.cache_keys = o.cache;
    e.bounded = o.bounded;
    e.stale_max = if e.hb.is_some() { o.stale } else { 0 };
    e.spur_max = o.spur;
    e.por = o.por;
    e.precise = o.por || PRECISE_PARK.with(|p| p.get());
    e.pending = vec![Fp::default(); n + 1];
    e.rs = vec![vec![]; n + 1];
    e.dirty = vec![false; n + 1];
    if e.stale_max > 0 {
      e.hb.as_mut().unwrap().enable_weak();
    }
  });
  // thread-owned arena values are created before the hook is armed (spawn happens-before start)
  let mut mines: Vec<Option<Arena>> = (0..n).map(|_| if h.own_arenas { Some(arena.clone()) } else { None }).collect();
  let mut engine_arena = Some(arena);
  if h.own_arenas {
    // the original is dropped before the threads start: only thread-owned values remain
    drop(engine_arena.take());
  }
  let sh = Shared { arena: engine_arena.as_ref().map(|a| a as *const Arena).unwrap_or(std::ptr::null()), pre, base, dof };
  let shp: &'static Shared = unsafe { &*(&sh as *const Shared) };
  verif::install(Some(&HK));
  POOL.with(|p| {
    let mut p = p.borrow_mut();
    while p.gens.len() < n {
      p.gens.push(Gn::new_opt(STACK_WORDS, || {}));
      let g = p.gens.last_mut().unwrap();
      g.resume(); // run the empty body so that the generator is 'done' and can be re-initialised
    }
    for t in 0..n {
      let prog: Vec<TOp> = h.progs[t].clone();
      let mine = SendBox(mines[t].take());
      p.gens[t].init_code(move || {
        let mine = mine;
        let r = std::panic::catch_unwind(std::panic::AssertUnwindSafe(|| run_thread(t, shp, &prog, mine.0)));
        if let Err(pl) = r {
          if !pl.is::<Abort>() {
            let msg = pl.downcast_ref::<String>().cloned().or_else(|| pl.downcast_ref::<&str>().map(|s| s.to_string())).unwrap_or_else(|| "panic".into());
            ENG.with(|e| {
              let mut e = e.borrow_mut();
              let k = e.op_idx[t];
              e.viol.push(V { class: "panic".into(), sig: format!("panic:{}", msg.chars().take(40).collect::<String>()), msg: format!("thread {} panicked in op #{}: {}", t, k, msg) });
              e.aborting = true;
            });
          }
        }
        ENG.with(|e| e.borrow_mut().st[t] = St::Finished);
      });
    }
    // driver loop
    let mut cur = ENG.with(|e| {
      let mut e = e.borrow_mut();
      e.cur = usize::MAX;
      let c = decide(&mut e, false, false).unwrap();
      e.cur = c;
      c
    });
    loop {
      p.gens[cur].resume();
      let nxt = ENG.with(|e| {
        let mut e = e.borrow_mut();
        if e.aborting {
          return (0..n).find(|t| e.st[*t] != St::Finished);
        }
        if e.st[cur] == St::Finished {
          e.solo = None;
          match decide(&mut e, false, false) {
            Some(t) => Some(t),
            None => {
              if e.st.iter().all(|s| *s == St::Finished) {
                None
              } else {
                // the remaining threads are all parked and nobody is left to write: confirm solo
                let t = (0..n).find(|t| e.st[*t] != St::Finished).unwrap();
                e.st[t] = St::Runnable;
                e.solo = Some((t, SOLO_BUDGET));
                Some(t)
              }
            }
          }
        } else {
          Some(e.next)
        }
      });
      match nxt {
        None => break,
        Some(t) => {
          cur = t;
          ENG.with(|e| e.borrow_mut().cur = t);
        }
      }
    }
  });
  // ---- end state
  let torn = ENG.with(|e| e.borrow().torn_down);
  let aborted = ENG.with(|e| e.borrow().aborting);
  if let Some(a) = engine_arena.as_ref() {
    if !torn {
      let lives = ENG.with(|e| e.borrow().live.clone());
      for l in &lives {
        check_pat(&sh, l, "at the end");
      }
      if h.reserved > 0 {
        // the caller's reserved bytes belong to nobody else
        let rs = unsafe { std::slice::from_raw_parts(base as *const u8, h.reserved as usize) };
        if let Some(i) = rs.iter().enumerate().position(|(i, b)| *b != 0xE0 | (i as u8 & 0x0f)) {
          ENG.with(|e| e.borrow_mut().viol.push(V { class: "corrupt".into(), sig: "corrupt:reserved-prefix".into(), msg: format!("byte {} of the reserved prefix changed to {:#04x}", i, rs[i]) }));
        }
      }
      if o.drain && !aborted {
        drain(a, &sh);
      }
    }
  }
  verif::install(None);
  let outcome = if !torn && engine_arena.is_some() {
    let img = unsafe { std::slice::from_raw_parts(base as *const u8, h.cap as usize) };
    let hdr = unsafe { std::slice::from_raw_parts(rg.header as *const u8, rg.header_len) };
    hash_of(&(img, hdr))
  } else {
    0
  };
  let out = ENG.with(|e| {
    let mut e = e.borrow_mut();
    if h.own_arenas && !e.aborting {
      if e.teardowns != 1 {
        let t = e.teardowns;
        e.viol.push(V { class: "teardown-count".into(), sig: format!("teardown-count:{}", t), msg: format!("backing memory released {} time(s) after all arena values were dropped", t) });
      }
    } else if !h.own_arenas && e.teardowns != 0 {
      e.viol.push(V { class: "teardown-early".into(), sig: "teardown-early:engine-holds-a-value".into(), msg: "backing memory released although an arena value is still alive".into() });
    }
    ExecOut {
      choices: std::mem::take(&mut e.choices),
      viol: std::mem::take(&mut e.viol),
      events: e.events,
      switches_in_op: e.switches_in_op,
      state_hashes: std::mem::take(&mut e.state_hashes),
      outcome,
      trace: e.trace.iter().map(|t| format!("t{} {}", t.tid, t.what)).collect(),
      cap_hit: e.cap_hit,
      teardowns: e.teardowns,
      max_op_events: e.max_op_events,
      choice_keys: std::mem::take(&mut e.choice_keys),
      obs: std::mem::take(&mut e.obs),
      blocked_at: e.blocked_at,
      hist: e.hist.clone(),
    }
  });
  if torn {
    // the arena is gone; nothing to drop
  }
  drop(engine_arena);
  out
}

struct SendBox<T>(T);
unsafe impl<T> Send for SendBox<T> {}

/// Sequential continuation after the threads: allocate until the arena refuses, under an event
/// budget and the shadow oracle.  A legitimate program suffix, so whatever it finds is real.
fn drain(a: &Arena, sh: &Shared) {
  // run as an extra logical thread `n` in solo mode (no switching), with a generous budget
  let n = ENG.with(|e| {
    let mut e = e.borrow_mut();
    let n = e.n;
    e.cur = n;
    e.st.push(St::Runnable);
    e.n = n + 1;
    e.solo = Some((n, 1500));
    e.draining = true;
    e.events = 0;
    e.op_idx[n] = 99;
    n
  });
  let r = std::panic::catch_unwind(std::panic::AssertUnwindSafe(|| {
    let mut got: Vec<LiveH> = vec![];
    // first every listed segment is taken as a whole (fresh space is used up before; a request of exactly the
    // data size of the head takes the head under both policies): a listed segment that reaches into a live
    // range becomes a handle that overlaps it.  Then a few more requests of mixed sizes.
    ENG.with(|e| e.borrow_mut().solo = Some((n, 400)));
    let rem = a.remaining() as u32;
    if rem > 0 {
      if let Ok(mut b) = a.alloc_bytes(rem) {
        unsafe { b.detach() };
        got.push(reg_alloc(n, sh, meta_of(&b), "bytes", 0xE1));
      }
    }
    let snap = a.verif_snapshot(16);
    for (_, word) in snap.nodes.iter() {
      let sz = (*word >> 32) as u32;
      if sz == 0 {
        break;
      }
      ENG.with(|e| e.borrow_mut().solo = Some((n, 400)));
      if let Ok(mut b) = a.alloc_bytes(sz) {
        unsafe { b.detach() };
        got.push(reg_alloc(n, sh, meta_of(&b), "bytes", 0xE2));
      }
    }
    // half of what was obtained goes back (insertions into a list that is being rebuilt) ...
    let mut keep = vec![];
    for (i, l) in got.drain(..).enumerate() {
      if i % 2 == 1 {
        ENG.with(|e| e.borrow_mut().solo = Some((n, 800)));
        release(n, sh, a, &l);
      } else {
        keep.push(l);
      }
    }
    got = keep;
    // ... and is taken again in pieces (splits)
    for round in 0..12 {
      let sz = if round % 2 == 0 { 8 } else { 24 };
      ENG.with(|e| {
        let mut e = e.borrow_mut();
        e.solo = Some((n, 400));
      });
      match a.alloc_bytes(sz) {
        Ok(mut b) => {
          unsafe { b.detach() };
          got.push(reg_alloc(n, sh, meta_of(&b), "bytes", 0xE0));
        }
        Err(_) => {}
      }
    }
    // walk the whole list twice more: an insertion (release of the first block obtained, which is
    // not on top any more) and discard_freelist
    ENG.with(|e| e.borrow_mut().solo = Some((n, 800)));
    if got.len() > 1 {
      let l = got[0].clone();
      release(n, sh, a, &l);
    }
    ENG.with(|e| e.borrow_mut().solo = Some((n, 800)));
    let _ = a.discard_freelist();
  }));
  let _ = r;
  ENG.with(|e| {
    let mut e = e.borrow_mut();
    e.n = n;
    e.st.truncate(n);
    e.solo = None;
    // hangs found here are reported like the others; the engine must not stay in abort mode
  });
}

// ---------------------------------------------------------------------------------------------
// exploration

pub struct ExploreCfg {
  pub bound: u8,
  pub hb: bool,
  pub drain: bool,
  /// properties the violation classes are attributed to
  pub prop_of: fn(&str) -> Option<&'static str>,
  pub max_execs: u64,
  /// prune prefixes that reach a state already expanded with at least the same remaining budget
  pub cache: bool,
  /// budgets of the non-SC deviations (see `ExecOpts`)
  pub stale: u8,
  pub spur: u8,
  /// sleep-set partial-order reduction: every interleaving up to the commutation of independent actions, no
  /// preemption bound (`bound` must be 255, `stale` 0)
  pub por: bool,
}

pub struct ExploreStats {
  /// sleep-set mode: executions that ended in a node whose enabled threads were all asleep (redundant ones)
  pub blocked: u64,
  pub pruned: u64,
  pub states: u64,
  pub execs: u64,
  pub events: u64,
  pub capped: bool,
  pub max_choices: usize,
  pub max_op_events: u64,
}

/// DFS over choice-index prefixes; every schedule with at most `bound` preemptions is run once.
pub fn explore(run: &Run, h: &Harness, xc: &ExploreCfg, tag: &str) -> ExploreStats {
  let mut stack: Vec<Vec<u8>> = vec![vec![]];
  let mut st = ExploreStats { blocked: 0, pruned: 0, states: 0, execs: 0, events: 0, capped: false, max_choices: 0, max_op_events: 0 };
  let bounded = xc.bound < 200;
  let o = ExecOpts { tracing: false, hash_states: !xc.cache, hb: xc.hb, drain: xc.drain, cache: xc.cache, bounded, stale: xc.stale, spur: xc.spur, por: xc.por };
  let mut seen: std::collections::HashMap<u64, u8> = std::collections::HashMap::new();
  // distinct states of this harness, merged into the run's counter once at the end
  let mut local_states: std::collections::HashSet<u64> = std::collections::HashSet::new();
  let mut pruned: u64 = 0;
  crate::crashguard::set_case(crate::crashguard::head_of(&json!({"engine": "sched", "tag": tag, "harness": h, "hb": xc.hb, "drain": xc.drain, "stale": xc.stale, "spur": xc.spur, "por": xc.por})));
  let mut first_trace: Option<Vec<String>> = None;
  let mut viol_execs = 0u32;
  while let Some(p) = stack.pop() {
    let idx: Vec<usize> = p.iter().map(|x| *x as usize).collect();
    crate::crashguard::set_idx(&idx);
    let out = run_one(h, &p, &o);
    st.execs += 1;
    st.events += out.events;
    st.max_choices = st.max_choices.max(out.choices.len());
    st.max_op_events = st.max_op_events.max(out.max_op_events);
    crate::crashguard::EVALS.fetch_add(1, Ordering::Relaxed);
    // determinism self-test on the first schedules of every harness
    // (an execution in which a violation was recorded may have gone through freed or foreign memory: its trace
    // is not expected to repeat)
    if st.execs <= 16 && out.viol.is_empty() && !out.cap_hit {
      let o2 = ExecOpts { tracing: true, hash_states: false, hb: xc.hb, drain: xc.drain, cache: false, bounded, stale: xc.stale, spur: xc.spur, por: xc.por };
      let a = run_one(h, &p, &o2);
      let b = run_one(h, &p, &o2);
      if (a.trace != b.trace || a.choices.len() != out.choices.len()) && a.viol.is_empty() && b.viol.is_empty() {
        eprintln!("machinery: schedule {:?} of {} is not deterministic", p, progs_str(&h.progs));
        std::process::exit(2);
      }
      if first_trace.is_none() {
        first_trace = Some(a.trace);
      }
    }
    for hsh in &out.state_hashes {
      local_states.insert(*hsh);
    }
    OUTCOMES.with(|o| {
      if let Some(set) = o.borrow_mut().as_mut() {
        if out.viol.is_empty() && !out.cap_hit {
          set.insert(hash_of(&(out.outcome, &out.hist[..h.progs.len()])));
        }
      }
    });
    if out.switches_in_op > 0 {
      run.nontrivial.insert(hash_of(&(h, out.outcome, out.viol.len())));
    }
    let sched: Vec<u8> = out.choices.iter().map(|c| c.chosen).collect();
    if out.cap_hit && xc.por {
      // without the fairness slice an execution may be long because the schedule is unfair: a cap, not a verdict
      st.capped = true;
    }
    if let (true, false, Some(prop)) = (out.cap_hit, xc.por, (xc.prop_of)("hang")) {
      run.violation(Violation {
        property: prop.into(),
        signature: format!("{}:hang:event-cap", tag),
        message: format!("[{} {:?}] no progress: {} events without all threads finishing under a fair schedule", progs_str(&h.progs), (h.fl, h.shape), EVENT_CAP),
        replay: json!({"engine": "sched", "tag": tag, "harness": h, "schedule": sched, "hb": xc.hb, "drain": xc.drain, "stale": xc.stale, "spur": xc.spur, "por": xc.por}),
      });
    }
    for v in &out.viol {
      if v.class == "machinery" {
        eprintln!("machinery: {} ({})", v.msg, progs_str(&h.progs));
        std::process::exit(2);
      }
      let Some(prop) = (xc.prop_of)(&v.class) else { continue };
      run.violation(Violation {
        property: prop.into(),
        signature: format!("{}:{}", tag, v.sig),
        message: format!("[{} fl={:?} shape={} unify={} min_seg={} schedule={:?}] {}", progs_str(&h.progs), h.fl, h.shape, h.unify, h.min_seg, sched, v.msg),
        replay: json!({"engine": "sched", "tag": tag, "harness": h, "schedule": sched, "hb": xc.hb, "drain": xc.drain, "stale": xc.stale, "spur": xc.spur, "por": xc.por}),
      });
    }
    if out.blocked_at.is_some() {
      st.blocked += 1;
    }
    let expand_to = out.blocked_at.unwrap_or(out.choices.len()).min(out.choices.len());
    if xc.por {
      // options in ascending order (the stack is LIFO: push the highest first); options asleep are skipped
      for i in p.len()..expand_to {
        let c = &out.choices[i];
        if c.kind == 2 && c.dev_before >= xc.spur {
          continue;
        }
        let from = if c.kind == 0 { c.chosen + 1 } else { 1 };
        for alt in (from..c.n).rev() {
          if c.kind == 0 && c.asleep & (1 << alt) != 0 {
            continue;
          }
          let mut np: Vec<u8> = out.choices[..i].iter().map(|x| x.chosen).collect();
          np.push(alt);
          stack.push(np);
        }
      }
    }
    for i in p.len()..(if xc.por { 0 } else { out.choices.len() }) {
      let c = &out.choices[i];
      if xc.cache {
        // an aborted execution (violation found) is not cached: its siblings are still explored
        let k = out.choice_keys[i];
        let remaining = xc.bound.saturating_sub(c.pre_before);
        match seen.get(&k) {
          Some(r) if *r >= remaining => {
            pruned += 1;
            break;
          }
          _ => {
            seen.insert(k, remaining);
            run.states.insert(k);
          }
        }
      }
      let cost = c.pre_before + if c.costly { 1 } else { 0 };
      if cost > xc.bound {
        continue;
      }
      if (c.kind == 1 && c.dev_before >= xc.stale) || (c.kind == 2 && c.dev_before >= xc.spur) {
        continue;
      }
      for alt in 1..c.n {
        let mut np: Vec<u8> = out.choices[..i].iter().map(|x| x.chosen).collect();
        np.push(alt);
        stack.push(np);
      }
    }
    if st.execs >= xc.max_execs {
      st.capped = true;
      break;
    }
    // a harness that keeps failing is abandoned: more schedules of it add nothing to the verdict, and failing
    // executions (aborted by unwinding, or run up to the event cap) are far more expensive than passing ones
    if out.cap_hit || !out.viol.is_empty() {
      viol_execs += 1;
      if viol_execs >= 24 {
        st.capped = true;
        break;
      }
    }
    if run.stopped() {
      break;
    }
  }
  if st.execs > 0 {
    run.sample(|| json!({"engine": "sched", "harness": h, "programs": progs_str(&h.progs), "schedules": st.execs, "first_schedule_trace": first_trace.clone().unwrap_or_default().into_iter().take(40).collect::<Vec<_>>()}));
  }
  if std::env::var("VERIF_DUMP_EXECS").is_ok() {
    eprintln!("EXECS {} {:?} shape={} unify={} min={} leave={} odd={} bound={} stale={} : {}", progs_str(&h.progs), h.fl, h.shape, h.unify, h.min_seg, h.leave, h.odd, xc.bound, xc.stale, st.execs);
  }
  crate::crashguard::clear_case();
  for hsh in &local_states {
    run.states.insert(*hsh);
  }
  st.pruned = pruned;
  st.states = seen.len() as u64;
  st
}

/// Re-run one recorded schedule and print the event trace.
pub fn replay(case: &Value) -> i32 {
  let h: Harness = serde_json::from_value(case["harness"].clone()).expect("harness");
  let sched: Vec<u8> = if case.get("schedule").is_some() { serde_json::from_value(case["schedule"].clone()).expect("schedule") } else { case["idx"].as_array().map(|a| a.iter().map(|x| x.as_u64().unwrap() as u8).collect()).unwrap_or_default() };
  let o = ExecOpts { tracing: true, hash_states: false, hb: case["hb"].as_bool().unwrap_or(false), drain: case["drain"].as_bool().unwrap_or(false), cache: false, bounded: true, stale: case["stale"].as_u64().unwrap_or(0) as u8, spur: case["spur"].as_u64().unwrap_or(0) as u8, por: case["por"].as_bool().unwrap_or(false) };
  crate::crashguard::set_case(crate::crashguard::head_of(&json!({"engine": "sched", "harness": h})));
  println!("replay sched: {} fl={:?} shape={} unify={} min_seg={} schedule={:?}", progs_str(&h.progs), h.fl, h.shape, h.unify, h.min_seg, sched);
  let a = run_one(&h, &sched, &o);
  let b = run_one(&h, &sched, &o);
  if a.trace != b.trace {
    println!("machinery: replay is not deterministic");
    return 2;
  }
  // a hang repeats its last loop iteration hundreds of times: show the head and the tail only
  let n = a.trace.len();
  for (i, l) in a.trace.iter().enumerate() {
    if n > 260 && i >= 220 && i < n - 12 {
      if i == 220 {
        println!("    ... {} further events (a wait loop repeating) ...", n - 232);
      }
      continue;
    }
    println!("    {}", l);
  }
  if a.cap_hit {
    println!("  !! event cap hit ({} events)", a.events);
  }
  for v in &a.viol {
    println!("  !! {} [{}]: {}", v.class, v.sig, v.msg);
  }
  if a.viol.is_empty() && !a.cap_hit {
    println!("  no violation on replay");
    0
  } else {
    1
  }
}

/// Self-test of the non-SC exploration on the arena's own header atomics.  Store buffering
/// (`set_min(24); r1 = discarded()` against `increase_discarded(1); r2 = minimum_segment_size()`): the outcome
/// r1 = 0 and r2 = 8 is impossible in every interleaving and must appear as soon as one stale read is allowed.
/// Message passing (`set_min(24); increase_discarded(1)` against `d = discarded(); m = minimum_segment_size()`, a
/// release store followed by a release RMW, read by acquire loads): d = 1 with m = 8 must never appear.
/// Returns (SB outcomes with stale 0, SB outcomes with stale 1, MP outcomes with stale 2, executions).
pub fn litmus() -> Result<serde_json::Value, String> {
  use std::collections::BTreeSet;
  let outcomes = |progs: Vec<Vec<TOp>>, stale: u8| -> (BTreeSet<Vec<(u8, u8, u64)>>, u64) {
    let h = Harness { fl: Fl::None, unify: true, min_seg: 8, cap: 256, shape: 0, progs, own_arenas: false, leave: 64, odd: 0, reserved: 0 };
    let o = ExecOpts { tracing: false, hash_states: false, hb: true, drain: false, cache: false, bounded: true, stale, spur: 0, por: false };
    let mut stack: Vec<Vec<u8>> = vec![vec![]];
    let mut set = BTreeSet::new();
    let mut n = 0;
    while let Some(p) = stack.pop() {
      let out = run_one(&h, &p, &o);
      n += 1;
      let mut ob = out.obs.clone();
      ob.sort();
      set.insert(ob);
      for i in p.len()..out.choices.len() {
        let c = &out.choices[i];
        if c.kind == 1 && c.dev_before >= stale {
          continue;
        }
        for alt in 1..c.n {
          let mut np: Vec<u8> = out.choices[..i].iter().map(|x| x.chosen).collect();
          np.push(alt);
          stack.push(np);
        }
      }
    }
    (set, n)
  };
  use TOp::*;
  let sb = vec![vec![Lit0, Lit2], vec![Lit1, Lit3]];
  let mp = vec![vec![Lit0, Lit1], vec![Lit2, Lit3]];
  let (sb0, n0) = outcomes(sb.clone(), 0);
  let (sb1, n1) = outcomes(sb, 1);
  let (mp2, n2) = outcomes(mp, 2);
  let weak_sb = vec![(0u8, 2u8, 0u64), (1, 3, 8)];
  if sb0.contains(&weak_sb) {
    return Err("store-buffering outcome (0, 8) in a sequentially consistent exploration".into());
  }
  if !sb1.contains(&weak_sb) {
    return Err(format!("store-buffering outcome (0, 8) not produced with one stale read: {:?}", sb1));
  }
  if mp2.contains(&vec![(1u8, 2u8, 1u64), (1, 3, 8)]) {
    return Err("message passing through a release store and acquire loads violated".into());
  }
  Ok(json!({"store_buffering_outcomes_sc": sb0.len(), "store_buffering_outcomes_one_stale_read": sb1.len(), "message_passing_outcomes_two_stale_reads": mp2.len(), "executions": n0 + n1 + n2}))
}
