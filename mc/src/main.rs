//! rarena-mc: bounded exhaustive exploration of al8n/rarena (see /verif/DESIGN.md)
mod crashguard;
mod hb;
mod hist;
mod layouts;
mod props_buf;
mod props_c04;
mod props_file;
mod props_grid;
mod props_hist;
mod props_sched;
mod report;
mod sched;
mod shard;
mod subject;

use report::Tier;

fn usage() -> ! {
  eprintln!("usage: rarena-mc check <Cxx> [--tier quick|thorough] | replay <path>");
  std::process::exit(2)
}

fn main() {
  let args: Vec<String> = std::env::args().collect();
  if args.len() < 3 {
    usage();
  }
  // subject panics are caught where they matter; keep the default hook quiet
  if std::env::var("VERIF_PANIC_TRACE").is_err() {
    std::panic::set_hook(Box::new(|_| {}));
  }
  let code = match args[1].as_str() {
    // the check proper runs in a child so that a subject crash cannot take the verdict with it
    "check" => supervise(&args),
    "check-inner" => {
      let id = args[2].as_str();
      let tier = tier_of(&args);
      let crash_path = report::verif_root().join("replays").join(format!("{}-crash-{}.json", id, std::process::id()));
      let _ = std::fs::create_dir_all(crash_path.parent().unwrap());
      crashguard::arm(id, &crash_path);
      // a panic of the subject that no oracle caught unwinds to here (through the worker scope): it belongs to
      // the case its worker had published
      let code = match std::panic::catch_unwind(|| dispatch(id, tier)) {
        Ok(c) => c,
        Err(_) => {
          crashguard::uncaught_panic();
          eprintln!("machinery: the check panicked outside any published case");
          101
        }
      };
      subject::cleanup_scratch();
      code
    }
    // one process-level shard of a check (see shard.rs): same dispatch, result file instead of evidence
    "shard-child" => {
      let id = args[2].as_str();
      let tier = tier_of(&args);
      let crash_path = report::verif_root().join("replays").join(format!("{}-crash-{}.json", id, std::process::id()));
      let _ = std::fs::create_dir_all(crash_path.parent().unwrap());
      crashguard::arm(id, &crash_path);
      let code = match std::panic::catch_unwind(|| dispatch(id, tier)) {
        Ok(c) => c,
        Err(_) => {
          crashguard::uncaught_panic();
          eprintln!("machinery: the shard panicked outside any published case");
          101
        }
      };
      subject::cleanup_scratch();
      code
    }
    "calib" => props_sched::calib(),
    "calibw" => props_sched::calibw(),
    "calibp" => props_sched::calibp(),
    "c13-files-child" => props_hist::c13_files_child(),
    "c04-child" => props_c04::child(if args[2] == "thorough" { Tier::Thorough } else { Tier::Quick }, &args[3], &args[4], args[5].parse().unwrap(), args[6].parse().unwrap()),
    "replay" => {
      let s = std::fs::read_to_string(&args[2]).unwrap_or_else(|e| {
        eprintln!("machinery: cannot read {}: {e}", args[2]);
        std::process::exit(2)
      });
      let v: serde_json::Value = serde_json::from_str(&s).expect("replay file is json");
      let case = &v["case"];
      let code = match case["engine"].as_str() {
        Some("hist") => hist::replay(case),
        Some("sched") => sched::replay(case),
        Some("loom") => props_sched::replay_loom(case),
        Some("buf") => props_buf::replay(case),
        Some("c13-file") => props_hist::replay_c13_file(case),
        Some("c04-ro") => props_c04::replay_ro(case),
        Some("c04-shrunk") => props_c04::replay_shrunk(case),
        Some("c09") | Some("c09-ro") | Some("c05") | Some("c06") | Some("c06-unsync") | Some("c06-sched") => props_file::replay(case),
        Some("c15") | Some("c16") | Some("c16-sbs") | Some("c17-clear") | Some("c17-resize") | Some("c18") | Some("c18-ro") | Some("c19") => props_grid::replay(case),
        _ => {
          eprintln!("machinery: unknown engine in replay file");
          2
        }
      };
      subject::cleanup_scratch();
      code
    }
    _ => usage(),
  };
  std::process::exit(code);
}

fn tier_of(args: &[String]) -> Tier {
  let mut tier = match std::env::var("VERIF_TIER").as_deref() {
    Ok("thorough") => Tier::Thorough,
    _ => Tier::Quick,
  };
  let mut i = 3;
  while i < args.len() {
    if args[i] == "--tier" && i + 1 < args.len() {
      tier = if args[i + 1] == "thorough" { Tier::Thorough } else { Tier::Quick };
      i += 1;
    }
    i += 1;
  }
  tier
}

fn dispatch(id: &str, tier: Tier) -> i32 {
  match id {
    "C01" | "C03" | "C08" | "C10" | "C11" | "C20" => props_hist::check(id, tier),
    "C02" | "C07" | "C12" | "C13" => props_sched::check(id, tier),
    "C04" => props_c04::check(tier),
    "C05" => props_file::check_c05(tier),
    "C06" => props_file::check_c06(tier),
    "C09" => props_file::check_c09(tier),
    "C14" => props_buf::check(tier),
    "C15" => props_grid::check_c15(tier),
    "C16" => props_grid::check_c16(tier),
    "C17" => props_grid::check_c17(tier),
    "C18" => props_grid::check_c18(tier),
    "C19" => props_grid::check_c19(tier),
    _ => {
      eprintln!("machinery: no check for {id}");
      2
    }
  }
}

/// Run `check-inner` in a child; turn a reproducible subject crash into a violation.
fn supervise(args: &[String]) -> i32 {
  use std::os::unix::process::ExitStatusExt;
  let exe = std::env::current_exe().expect("current_exe");
  let id = args[2].clone();
  let tier = tier_of(args);
  let t0 = std::time::Instant::now();
  // the inner check leads a process group of its own: whatever it has started (shard children, replays of recorded
  // cases) is ended with it, also when a subject crash takes the inner check down before it could wait for them
  use std::os::unix::process::CommandExt;
  let mut cmd = std::process::Command::new(&exe);
  cmd.arg("check-inner").args(&args[2..]);
  unsafe {
    cmd.pre_exec(|| {
      libc::setpgid(0, 0);
      Ok(())
    });
  }
  let mut child = cmd.spawn().expect("spawn check-inner");
  let pid = child.id();
  let st = child.wait().expect("wait");
  unsafe {
    libc::kill(-(pid as i32), libc::SIGKILL);
  }
  // scratch files of the child
  let _ = std::fs::remove_dir_all(std::path::Path::new("/dev/shm").join(format!("rarena-verif-{}", pid)));
  if let Some(c) = st.code() {
    if c != crashguard::CRASH_EXIT {
      return c;
    }
  }
  let crash_path = report::verif_root().join("replays").join(format!("{}-crash-{}.json", id, pid));
  let Ok(text) = std::fs::read_to_string(&crash_path) else {
    eprintln!("machinery: check process died ({:?}, signal {:?}) outside any recorded case", st.code(), st.signal());
    return 2;
  };
  let v: serde_json::Value = match serde_json::from_str(&text) {
    Ok(v) => v,
    Err(e) => {
      eprintln!("machinery: crash artefact {} unreadable: {e}", crash_path.display());
      return 2;
    }
  };
  // confirm: the recorded case alone must die again
  // a recorded hang is confirmed when the replay does not come back either
  let secs = if v["signature"].as_str().unwrap_or("").starts_with("hang") { 30 } else { 300 };
  if !crashguard::confirm_replay(&exe, &crash_path, secs) {
    eprintln!("machinery: crash / hang recorded in {} did not reproduce", crash_path.display());
    return 2;
  }
  let run = report::Run::new(&id, tier, "model_checking");
  let n = v["evaluations_before"].as_u64().unwrap_or(0) + 1;
  run.eval(n);
  run.trans(n);
  run.states.insert(1);
  run.nontrivial.insert(1);
  run.nontrivial.insert(2);
  run.sample(|| v["case"].clone());
  run.not_exhaustive("exploration ended at the first subject crash");
  run.rule("exploration aborted: the subject died with a fatal signal on the sampled case; counts are the cases completed before it");
  run.set("wall_before_crash_s", serde_json::json!(t0.elapsed().as_secs_f64()));
  let sig = v["signature"].as_str().unwrap_or("crash").to_string();
  run.violation(report::Violation { property: id.clone(), signature: format!("{}:{}", v["case"]["tag"].as_str().unwrap_or(id.as_str()), sig), message: v["message"].as_str().unwrap_or("").to_string(), replay: v["case"].clone() });
  let _ = std::fs::remove_file(&crash_path);
  run.finish()
}
