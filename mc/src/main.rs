//! rarena-mc: bounded exhaustive exploration of al8n/rarena (see /verif/DESIGN.md)
mod hist;
mod layouts;
mod props_hist;
mod report;
mod subject;

use report::Tier;

fn usage() -> ! {
  eprintln!("usage: rarena-mc check <Cxx> [--tier quick|thorough] | replay <path>");
  std::process::exit(2)
}

fn main() {
  let args: Vec<String> = std::env::args().collect();
  if args.len() < 3 {
    usage();
  }
  // subject panics are caught where they matter; keep the default hook quiet
  if std::env::var("VERIF_PANIC_TRACE").is_err() {
    std::panic::set_hook(Box::new(|_| {}));
  }
  let code = match args[1].as_str() {
    "check" => {
      let id = args[2].as_str();
      let mut tier = match std::env::var("VERIF_TIER").as_deref() {
        Ok("thorough") => Tier::Thorough,
        _ => Tier::Quick,
      };
      let mut i = 3;
      while i < args.len() {
        if args[i] == "--tier" && i + 1 < args.len() {
          tier = if args[i + 1] == "thorough" { Tier::Thorough } else { Tier::Quick };
          i += 1;
        }
        i += 1;
      }
      let code = match id {
        "C01" | "C03" | "C08" | "C10" | "C11" | "C20" => props_hist::check(id, tier),
        _ => {
          eprintln!("machinery: no check for {id}");
          2
        }
      };
      subject::cleanup_scratch();
      code
    }
    "replay" => {
      let s = std::fs::read_to_string(&args[2]).unwrap_or_else(|e| {
        eprintln!("machinery: cannot read {}: {e}", args[2]);
        std::process::exit(2)
      });
      let v: serde_json::Value = serde_json::from_str(&s).expect("replay file is json");
      let case = &v["case"];
      let code = match case["engine"].as_str() {
        Some("hist") => hist::replay(case),
        _ => {
          eprintln!("machinery: unknown engine in replay file");
          2
        }
      };
      subject::cleanup_scratch();
      code
    }
    _ => usage(),
  };
  std::process::exit(code);
}
