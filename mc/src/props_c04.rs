//! C04 — any request size is answered safely.  Boundary-dense size grid x type layouts x reachable
//! arena states, in the release profile and (through a child process) in the overflow-checked one.
use crate::hist::*;
use crate::layouts::LAYOUTS;
use crate::report::{hash_of, Run, Tier, Violation};
use crate::subject::*;
use serde_json::{json, Value};

fn sizes() -> Vec<Sz> {
  // (remaining() + k for k up to a little more than the reserved prefix and the header of the cells: a capacity test
  // that is off by one of those quantities accepts them)
  let mut v = vec![Sz::N(0), Sz::N(1), Sz::N(2), Sz::Rm(8), Sz::Rm(1), Sz::R, Sz::Rp(1), Sz::Rp(4), Sz::Rp(5), Sz::Rp(6), Sz::Rp(8), Sz::Rp(24), Sz::Rp(32), Sz::Rp(37), Sz::N(255), Sz::N(256), Sz::N(257)];
  for n in [(1u32 << 31) - 1, 1 << 31, (1 << 31) + 1, (1u32 << 16), u32::MAX / 2 + 9] {
    v.push(Sz::N(n));
  }
  for k in -2..=2 {
    v.push(Sz::Wrap(k));
  }
  for k in [-40, -33, -17, -9, -8, -7, 7, 8, 9, 17, 33, 40, 64, 100] {
    v.push(Sz::Wrap(k));
  }
  for k in 0..=16 {
    v.push(Sz::N(u32::MAX - k));
  }
  v
}

fn final_ops(thorough: bool) -> Vec<Op> {
  let mut v = vec![];
  for s in sizes() {
    v.push(Op::B(s));
    v.push(Op::BO(s));
    for t in [U8, U64, A16, UNIT, Ty::Dc] {
      v.push(Op::AB(t, s));
    }
    v.push(Op::ABO(U64, s));
  }
  for (a, s) in LAYOUTS {
    if thorough || s % 8 <= 1 || s == 33 || a == 16 {
      v.push(Op::T(Ty::L(a, s)));
    }
  }
  v.push(Op::T(Ty::Dc));
  v.push(Op::TO(U64));
  v
}

fn prefix_alphabet() -> Vec<Op> {
  use Op::*;
  use Sz::*;
  // (the last two: states reached through `clear` and through a seek of the cursor far beyond the capacity, which
  // must leave it at the capacity)
  vec![B(N(7)), B(N(40)), B(R), T(U64), AB(A16, N(9)), D(0), D(1), Disc, Clear, Rewind(Pos::Start(u32::MAX - 3))]
}

pub fn run_grid(run: &Run, tier: Tier, profile: &str, shard: usize, nshards: usize) {
  let thorough = tier == Tier::Thorough;
  let finals = final_ops(thorough);
  let pre = prefix_alphabet();
  let depth = if thorough { 3 } else { 2 };
  let or = O_ERRSTATE | O_SHADOW | O_CAPALIGN | O_FREELIST | O_ZERO | O_BOUNDS;
  let mut cells = crate::props_hist::cells(&[(Backend::Vec, false), (Backend::Vec, true), (Backend::Anon, true), (Backend::File, true)], 225, 256);
  // the slow path is retried `maximum_retries` times: the two smallest values and the largest
  for fl in [Fl::Optimistic, Fl::Pessimistic] {
    for retries in [0u8, 1, 255] {
      let mut c = Cfg::new(fl, Backend::Vec, true, 256);
      c.retries = retries;
      cells.push(c);
    }
  }
  // a reserved prefix in front of the data area, both layouts
  for (fl, unify) in [(Fl::Optimistic, false), (Fl::None, true)] {
    let mut c = Cfg::new(fl, Backend::Vec, unify, if unify { 256 + 8 } else { 225 + 5 });
    c.reserved = 5;
    cells.push(c);
  }
  if thorough {
    for fl in Fl::ALL {
      let mut c = Cfg::new(fl, Backend::Vec, true, 256 + 8);
      c.reserved = 5;
      c.min_seg = 0;
      cells.push(c);
    }
  }
  // minimum segment size 0 (whatever can hold a node word is listed) and calls through a clone of the arena value
  for fl in [Fl::Optimistic, Fl::Pessimistic] {
    let mut c = Cfg::new(fl, Backend::Vec, true, 256);
    c.min_seg = 0;
    cells.push(c);
    let mut c = Cfg::new(fl, Backend::Vec, fl == Fl::Optimistic, if fl == Fl::Optimistic { 256 } else { 225 });
    c.via_clone = true;
    cells.push(c);
  }
  let mut starts = fragmented_starts();
  // one machine word, then everything that is left: the word can be given back while it is not on top
  starts.push(Start { name: "word+rest".into(), setup: vec![Setup::Do(Op::T(Ty::L(8, 8))), Setup::Do(Op::B(Sz::R))] });
  let mut items = vec![];
  for ci in 0..cells.len() {
    for si in 0..starts.len() {
      items.push((ci, si));
    }
  }
  let spec = Spec { alphabet: vec![], depth: depth + 1, oracles: or, sync: true, unsync: true, diff: false, diff_prop: "C04" };
  let items: Vec<(usize, usize)> = items.into_iter().enumerate().filter(|(i, _)| i % nshards == shard).map(|(_, x)| x).collect();
  // sequential inside one process: a crash must be attributable to the case this (only) thread runs
  items.iter().for_each(|&(ci, si)| {
    let (cfg, st) = (&cells[ci], &starts[si]);
    let mut pair = Pair::new(cfg, st, &spec);
    // all prefixes of length 0..=depth (prefix-closed enumeration)
    let mut prefixes: Vec<Vec<Op>> = vec![vec![]];
    let mut frontier: Vec<Vec<Op>> = vec![vec![]];
    for _ in 0..depth {
      let mut next = vec![];
      for p in &frontier {
        for op in &pre {
          let mut w = p.clone();
          w.push(*op);
          // building a state is subject code as well: a call that does not return must be caught by the watchdog
          crate::crashguard::set_case(crate::crashguard::head_of(&json!({"engine": "hist", "tag": "C04", "profile": profile, "cfg": cfg, "start": st, "word": w, "oracles": or, "sync": true, "unsync": true, "diff": false})));
          let r = std::panic::catch_unwind(std::panic::AssertUnwindSafe(|| pair.run_word(st, &w, &Spec { oracles: 0, ..spec.clone() }, 0)));
          match r {
            Ok(out) => {
              if out.disabled_at.is_none() {
                next.push(w);
              }
            }
            Err(pl) => {
              // a panic while building a state is a violation of its own (reported once per history)
              let msg = pl.downcast_ref::<String>().cloned().or_else(|| pl.downcast_ref::<&str>().map(|s| s.to_string())).unwrap_or_default();
              let last = *w.last().unwrap();
              run.violation(Violation { property: "C04".into(), signature: format!("C04:panic:{}:prefix:{}", op_class(&last), profile), message: format!("[{} profile, {:?} start {} history {}] panicked: {}", profile, cfg, st.name, word_str(&w), msg), replay: json!({"engine": "hist", "tag": "C04", "profile": profile, "cfg": cfg, "start": st, "word": w, "oracles": or, "sync": true, "unsync": true, "diff": false}) });
              drop(std::mem::replace(&mut pair, Pair::new(cfg, st, &spec)));
            }
          }
        }
      }
      prefixes.extend(next.iter().cloned());
      frontier = next;
    }
    for p in &prefixes {
      for f in &finals {
        let mut w = p.clone();
        w.push(*f);
        let case = json!({"engine": "hist", "tag": "C04", "profile": profile, "cfg": cfg, "start": st, "word": w, "oracles": or, "sync": true, "unsync": true, "diff": false});
        crate::crashguard::set_case(crate::crashguard::head_of(&case));
        let r = std::panic::catch_unwind(std::panic::AssertUnwindSafe(|| pair.run_word(st, &w, &spec, p.len())));
        run.eval(1);
        run.trans(1);
        crate::crashguard::EVALS.fetch_add(1, std::sync::atomic::Ordering::Relaxed);
        let class_of = |op: &Op| match op {
          Op::B(s) | Op::BO(s) | Op::AB(_, s) | Op::ABO(_, s) => match s {
            Sz::Wrap(_) => "size>=2^32-allocated",
            Sz::N(n) if *n > 1 << 30 => "huge-size",
            _ => "size",
          },
          _ => "typed",
        };
        match r {
          Err(pl) => {
            let msg = pl.downcast_ref::<String>().cloned().or_else(|| pl.downcast_ref::<&str>().map(|s| s.to_string())).unwrap_or_default();
            run.violation(Violation { property: "C04".into(), signature: format!("C04:panic:{}:{}:{}", op_class(f), class_of(f), profile), message: format!("[{} profile, {:?} start {} history {}] panicked: {}", profile, cfg, st.name, word_str(&w), msg), replay: case });
            // the pair may be inconsistent after a panic: rebuild it
            drop(std::mem::replace(&mut pair, Pair::new(cfg, st, &spec)));
          }
          Ok(out) => {
            for (k, fl, v) in &out.viol {
              run.violation(Violation { property: "C04".into(), signature: format!("C04:{}:{}:{}:{}", v.class, op_class(f), class_of(f), profile), message: format!("[{} profile, {} {:?} start {} history {}] step {}: {}", profile, fl, cfg, st.name, word_str(&w), k, v.msg), replay: case.clone() });
            }
            // the subject has written outside the arena: this process's heap can no longer be trusted (the
            // allocator aborts at some later free).  The shard reports what it has and leaves without freeing.
            if out.viol.iter().any(|(_, _, v)| v.class == "zeroing-outside-arena" || v.class == "atomic-access-outside-arena") {
              if let Some(leave) = LEAVE.get() {
                leave(run);
              }
            }
            if let Some(o) = out.obs_sync.last() {
              run.states.insert(hash_of(&(ci, si, o)));
              if matches!(o.res, Res::Err(_)) || out.slow_paths > 0 {
                run.nontrivial.insert(hash_of(&(ci, si, p, f)));
              }
            }
          }
        }
      }
    }
    crate::crashguard::clear_case();
  });
  // read-only arenas answer ReadOnly and change nothing
  for fl in Fl::ALL {
    if shard != 0 {
      break;
    }
    for sync in [true, false] {
      let cfg = Cfg::new(fl, Backend::File, true, 256);
      let p = fresh_path("c04ro");
      fn ro<A: Subject>(run: &Run, cfg: &Cfg, p: &std::path::PathBuf, finals: &[Op], profile: &str) {
        {
          let a: A = build(cfg, Some(p)).unwrap();
          let mut b = a.alloc_bytes(40).unwrap();
          unsafe { rarena_allocator::Buffer::detach(&mut b) };
          let mut c = a.alloc_bytes(24).unwrap();
          unsafe { rarena_allocator::Buffer::detach(&mut c) };
          let m = meta_of(&b);
          drop(b);
          unsafe { a.dealloc(m.2 as u32, m.3 as u32) };
        }
        for copy in [false, true] {
          let o = cfg.options().with_read(true);
          let a: A = unsafe { if copy { o.map_copy_read_only(p) } else { o.map(p) } }.unwrap();
          let mut r = Runner::<A>::from_arena(cfg, Box::new(a), None);
          for f in finals {
            let mut v = vec![];
            let case = json!({"engine": "c04-ro", "flavour": A::FLAVOUR, "profile": profile, "cfg": cfg, "copy": copy, "op": f});
            crate::crashguard::set_case(crate::crashguard::head_of(&case));
            let res = std::panic::catch_unwind(std::panic::AssertUnwindSafe(|| r.step(*f, O_ERRSTATE, &mut v)));
            run.eval(1);
            if res.is_err() {
              // zero-sized typed requests construct a handle through get_aligned_pointer_mut: documented panic? no: they must not reach it
              run.violation(Violation { property: "C04".into(), signature: format!("C04:panic-readonly:{}:{}", op_class(f), profile), message: format!("[{} {} read-only copy={}] {} panicked", profile, A::FLAVOUR, copy, f.short()), replay: case.clone() });
            }
            for x in v {
              run.violation(Violation { property: "C04".into(), signature: format!("C04:{}:readonly:{}:{}", x.class, op_class(f), profile), message: format!("[{} {} read-only copy={}] {}: {}", profile, A::FLAVOUR, copy, f.short(), x.msg), replay: case.clone() });
            }
            // zero-size handles are pushed to the slots: drop them again
            while !r.slots.is_empty() {
              let mut vv = vec![];
              r.step(Op::X(0), 0, &mut vv);
            }
          }
          crate::crashguard::clear_case();
          std::mem::forget(r.into_arena());
        }
        let _ = std::fs::remove_file(p);
      }
      if sync {
        ro::<rarena_allocator::sync::Arena>(run, &cfg, &p, &finals, profile);
        shrunk::<rarena_allocator::sync::Arena>(run, &cfg, profile);
      } else {
        ro::<rarena_allocator::unsync::Arena>(run, &cfg, &p, &finals, profile);
        shrunk::<rarena_allocator::unsync::Arena>(run, &cfg, profile);
      }
    }
  }
}

pub fn check(tier: Tier) -> i32 {
  let run = Run::new("C04", tier, "fault_enumeration");
  let me = std::env::current_exe().expect("current_exe");
  let mut profiles: Vec<(&str, std::path::PathBuf)> = vec![("release", me)];
  match std::env::var("VERIF_CHECKED_BIN") {
    Ok(b) => profiles.push(("checked", std::path::PathBuf::from(b))),
    Err(_) => run.not_exhaustive("overflow-checked build not available (VERIF_CHECKED_BIN unset): release profile only"),
  }
  let n = crate::report::nthreads();
  for (profile, bin) in &profiles {
    // one single-threaded child per shard: a wild write of the subject cannot hit another case
    let mut kids = vec![];
    for i in 0..n {
      let out = crate::subject::scratch_dir().join(format!("c04-{}-{}.json", profile, i));
      let ch = std::process::Command::new(bin).arg("c04-child").arg(tier.name()).arg(&out).arg(profile).arg(i.to_string()).arg(n.to_string()).spawn().expect("spawn c04 child");
      kids.push((ch, out));
    }
    let mut evals = 0u64;
    let mut states = 0u64;
    let mut nontrivial = 0u64;
    for (mut ch, out) in kids {
      let pid = ch.id();
      let st = ch.wait().expect("wait c04 child");
      if st.code() == Some(0) {
        let v: Value = serde_json::from_str(&std::fs::read_to_string(&out).unwrap_or_default()).unwrap_or(Value::Null);
        if v.is_null() {
          eprintln!("machinery: C04 child wrote no result");
          return 2;
        }
        evals += v["evaluations"].as_u64().unwrap_or(0);
        states += v["states"].as_u64().unwrap_or(0);
        nontrivial += v["nontrivial"].as_u64().unwrap_or(0);
        for h in v["state_hashes"].as_array().cloned().unwrap_or_default() {
          run.states.insert(h.as_u64().unwrap_or(0));
        }
        for h in v["nontrivial_hashes"].as_array().cloned().unwrap_or_default() {
          run.nontrivial.insert(h.as_u64().unwrap_or(0));
        }
        if v["cut_short"].as_bool().unwrap_or(false) {
          run.not_exhaustive("a shard stopped after the subject wrote outside the arena");
        }
        for x in v["violations"].as_array().cloned().unwrap_or_default() {
          run.violation(Violation { property: "C04".into(), signature: x["signature"].as_str().unwrap_or("").into(), message: x["message"].as_str().unwrap_or("").into(), replay: x["replay"].clone() });
        }
      } else if st.code() == Some(crate::crashguard::CRASH_EXIT) {
        let p = crate::report::verif_root().join("replays").join(format!("C04-crash-child-{}.json", pid));
        let v: Value = serde_json::from_str(&std::fs::read_to_string(&p).unwrap_or_default()).unwrap_or(Value::Null);
        let word: Vec<Op> = serde_json::from_value(v["case"]["word"].clone()).unwrap_or_default();
        let signature = format!("C04:{}:{}:{}", v["signature"].as_str().unwrap_or("crash"), word.last().map(op_class).unwrap_or("?"), profile);
        // confirm: the recorded case alone must die again in the same build profile (once per signature: sixteen
        // shards that all stop at the same kind of hang are not confirmed one after the other)
        let secs = if v["signature"].as_str().unwrap_or("").starts_with("hang") { 30 } else { 300 };
        let seen = run.violations.lock().unwrap().contains_key(&signature);
        if v.is_null() || (!seen && !crate::crashguard::confirm_replay(bin, &p, secs)) {
          eprintln!("machinery: C04 child died but the recorded case {} does not reproduce", p.display());
          return 2;
        }
        evals += v["evaluations_before"].as_u64().unwrap_or(0) + 1;
        let last = word.last().map(|o| o.short()).unwrap_or_default();
        run.violation(Violation { property: "C04".into(), signature, message: format!("[{} profile] {} (history {}; final call {})", profile, v["message"].as_str().unwrap_or(""), word_str(&word), last), replay: v["case"].clone() });
        run.not_exhaustive("a shard ended at a subject crash");
        let _ = std::fs::remove_file(p);
      } else {
        eprintln!("machinery: C04 child ended with {:?}", st);
        return 2;
      }
    }
    run.eval(evals);
    run.trans(evals);
    run.set(&format!("{}_profile", profile), json!({"evaluations": evals, "states_sum_over_shards": states, "nontrivial_sum_over_shards": nontrivial}));
  }
  crate::props_sched::c04_concurrent(&run, tier == Tier::Thorough);
  run.sample(|| json!({"cfg": "sync/unsync Optimistic Vec plain, capacity 225", "start": "full-2eq", "prefix": "B(7) D0", "final_call": "alloc_bytes(u32::MAX - allocated + 1)", "expected": "Err(InsufficientSpace), state unchanged, no panic, no signal", "profiles": ["release", "checked (overflow-checks + debug-assertions)"]}));
  run.rule("final call = every (allocation flavour x boundary-dense size) and every typed layout, in every state reached by a prefix of <= 2 operations from 6 start states x 12+ configuration cells x {sync, unsync}, plus read-only reopened arenas; run once in the release profile and once in an overflow-checked build (child process); oracles: Ok => shadow/capacity/alignment/zero/policy oracles, Err => state unchanged and right error kind, never panic, never a signal; evaluations = final calls; non-trivial = refused or list-served calls, distinct by (cell, start, prefix, call)");
  run.set("bounds", json!({"sizes": sizes().len(), "final_ops": final_ops(tier == Tier::Thorough).len(), "prefix_depth": 2, "prefix_alphabet": prefix_alphabet().iter().map(|o| o.short()).collect::<Vec<_>>()}));
  run.assume("capacities stay small (<= 264); arenas with capacity near u32::MAX are not constructed");
  run.finish()
}

/// set in a shard process: writes the shard's result and ends the process without running destructors
static LEAVE: std::sync::OnceLock<Box<dyn Fn(&Run) + Send + Sync>> = std::sync::OnceLock::new();

fn write_child_result(run: &Run, out: &str, cut_short: bool) {
  let viol: Vec<Value> = run.violations.lock().unwrap().values().map(|(_, v)| json!({"signature": v.signature, "message": v.message, "replay": v.replay})).collect();
  let v = json!({
    "evaluations": run.evaluations.load(std::sync::atomic::Ordering::Relaxed),
    "states": run.states.len(), "nontrivial": run.nontrivial.len(), "violations": viol,
    "state_hashes": run.states.dump(), "nontrivial_hashes": run.nontrivial.dump(), "cut_short": cut_short,
  });
  std::fs::write(out, serde_json::to_string(&v).unwrap()).expect("write child result");
}

/// A file arena reopened writable with a capacity below its stored cursor (the library accepts that): every
/// request is answered with an error, none panics, and the accessors do not wrap.
fn shrunk<A: Subject>(run: &Run, cfg: &Cfg, profile: &str) {
  use rarena_allocator::Error;
  let p = fresh_path("c04shrunk");
  {
    let a: A = build(cfg, Some(&p)).unwrap();
    let mut b = a.alloc_bytes(cfg.cap - cfg.data_offset() as u32 - 9).unwrap();
    unsafe { rarena_allocator::Buffer::detach(&mut b) };
  }
  for cap in [cfg.cap / 2, cfg.cap - 16, cfg.data_offset() as u32 + 1] {
    let o = cfg.options().with_capacity(cap).with_read(true).with_write(true);
    let Ok(a): Result<A, _> = (unsafe { o.map_mut::<A, _>(&p) }) else { continue };
    if a.allocated() <= a.capacity() {
      continue;
    }
    let case = json!({"engine": "c04-shrunk", "flavour": A::FLAVOUR, "profile": profile, "cfg": cfg, "capacity": cap});
    crate::crashguard::set_case(crate::crashguard::head_of(&case));
    let calls: Vec<(&str, Box<dyn Fn(&A) -> Result<(), Error>>)> = vec![
      ("alloc_bytes(1)", Box::new(|a: &A| a.alloc_bytes(1).map(|mut b| unsafe { rarena_allocator::Buffer::detach(&mut b) }))),
      ("alloc_bytes(40)", Box::new(|a: &A| a.alloc_bytes(40).map(|mut b| unsafe { rarena_allocator::Buffer::detach(&mut b) }))),
      ("alloc_bytes(u32::MAX)", Box::new(|a: &A| a.alloc_bytes(u32::MAX).map(|mut b| unsafe { rarena_allocator::Buffer::detach(&mut b) }))),
      ("alloc_bytes_owned(8)", Box::new(|a: &A| a.alloc_bytes_owned(8).map(|mut b| unsafe { rarena_allocator::Buffer::detach(&mut b) }))),
      ("alloc::<u64>()", Box::new(|a: &A| unsafe { a.alloc::<u64>() }.map(|mut b| unsafe { rarena_allocator::Buffer::detach(&mut b) }))),
      ("alloc_aligned_bytes::<u64>(3)", Box::new(|a: &A| a.alloc_aligned_bytes::<u64>(3).map(|mut b| unsafe { rarena_allocator::Buffer::detach(&mut b) }))),
      ("alloc_aligned_bytes::<u16>(u32::MAX - 2)", Box::new(|a: &A| a.alloc_aligned_bytes::<u16>(u32::MAX - 2).map(|mut b| unsafe { rarena_allocator::Buffer::detach(&mut b) }))),
    ];
    for (name, f) in &calls {
      let before = (a.allocated(), a.discarded());
      let r = std::panic::catch_unwind(std::panic::AssertUnwindSafe(|| (f(&a), a.remaining())));
      run.eval(1);
      let what = match r {
        Err(_) => Some("panicked".to_string()),
        Ok((Ok(()), _)) => Some("returned a handle".to_string()),
        Ok((Err(Error::InsufficientSpace { .. }), rem)) if rem == 0 && (a.allocated(), a.discarded()) == before => None,
        Ok((Err(e), rem)) => Some(format!("failed with {:?}, remaining() = {}, (allocated, discarded) {:?} -> {:?}", e, rem, before, (a.allocated(), a.discarded()))),
      };
      if let Some(w) = what {
        run.violation(Violation { property: "C04".into(), signature: format!("C04:shrunk-reopen:{}:{}", name.split('(').next().unwrap_or(name), profile), message: format!("[{} profile, {} {:?} reopened with capacity {} below its cursor {}] {} {}", profile, A::FLAVOUR, cfg.fl, cap, before.0, name, w), replay: case.clone() });
      }
    }
    crate::crashguard::clear_case();
  }
  let _ = std::fs::remove_file(&p);
}

pub fn replay_shrunk(case: &Value) -> i32 {
  let cfg: Cfg = serde_json::from_value(case["cfg"].clone()).expect("cfg");
  let run = Run::new("C04", Tier::Quick, "fault_enumeration");
  let profile = case["profile"].as_str().unwrap_or("release").to_string();
  if case["flavour"].as_str() == Some("unsync") {
    shrunk::<rarena_allocator::unsync::Arena>(&run, &cfg, &profile);
  } else {
    shrunk::<rarena_allocator::sync::Arena>(&run, &cfg, &profile);
  }
  let v = run.violations.lock().unwrap();
  for (sig, (_, x)) in v.iter() {
    println!("  !! {}: {}", sig, x.message);
  }
  println!("replay c04-shrunk: {} violation(s)", v.len());
  if v.is_empty() { 0 } else { 1 }
}

/// entry point of one shard (single-threaded child process): result dumped as JSON
pub fn child(tier: Tier, out: &str, profile: &str, shard: usize, nshards: usize) -> i32 {
  let crash = crate::report::verif_root().join("replays").join(format!("C04-crash-child-{}.json", std::process::id()));
  let _ = std::fs::create_dir_all(crash.parent().unwrap());
  crate::crashguard::arm("C04", &crash);
  let run = Run::new("C04", tier, "fault_enumeration");
  let out_s = out.to_string();
  let _ = LEAVE.set(Box::new(move |run: &Run| {
    crate::crashguard::clear_case();
    write_child_result(run, &out_s, true);
    unsafe { libc::_exit(0) }
  }));
  run_grid(&run, tier, profile, shard, nshards);
  write_child_result(&run, out, false);
  0
}

/// replay of a read-only case recorded by the crash guard: the same call on a freshly prepared read-only arena
pub fn replay_ro(case: &Value) -> i32 {
  let cfg: Cfg = serde_json::from_value(case["cfg"].clone()).expect("cfg");
  let op: Op = serde_json::from_value(case["op"].clone()).expect("op");
  let copy = case["copy"].as_bool().unwrap_or(false);
  fn go<A: Subject>(cfg: &Cfg, op: Op, copy: bool) -> i32 {
    let p = fresh_path("c04ro-replay");
    {
      let a: A = build(cfg, Some(&p)).unwrap();
      let mut b = a.alloc_bytes(40).unwrap();
      unsafe { rarena_allocator::Buffer::detach(&mut b) };
    }
    let o = cfg.options().with_read(true);
    let a: A = unsafe { if copy { o.map_copy_read_only(&p) } else { o.map(&p) } }.unwrap();
    let mut r = Runner::<A>::from_arena(cfg, Box::new(a), None);
    let mut v = vec![];
    println!("replay c04-ro: {} on a read-only {} arena", op.short(), A::FLAVOUR);
    r.step(op, O_ERRSTATE, &mut v);
    for x in &v {
      println!("  !! {}: {}", x.class, x.msg);
    }
    std::mem::forget(r.into_arena());
    let _ = std::fs::remove_file(&p);
    if v.is_empty() {
      0
    } else {
      1
    }
  }
  if case["flavour"].as_str() == Some("sync") {
    go::<rarena_allocator::sync::Arena>(&cfg, op, copy)
  } else {
    go::<rarena_allocator::unsync::Arena>(&cfg, op, copy)
  }
}
