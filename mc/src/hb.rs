//! Happens-before monitor (C12): vector clocks driven by the E1 event stream, using the memory
//! orderings the code actually passed, with C++20 release sequences.
//!
//! Decides, for one sequentially consistent interleaving, whether every pair of conflicting
//! accesses of which at least one is non-atomic is ordered by happens-before.
use rarena_allocator::verif::Kind;
use std::collections::{BTreeMap, HashMap};
use std::sync::atomic::Ordering;

/// Per-thread / per-message view of the modification orders: location key -> index of the oldest message that
/// may still be read (coherence).  Few atomic locations exist in one execution, so an association list does.
pub type View = Vec<(usize, u32)>;

fn view_get(v: &View, k: usize) -> u32 {
  v.iter().find(|e| e.0 == k).map(|e| e.1).unwrap_or(0)
}
fn view_raise(v: &mut View, k: usize, i: u32) {
  if let Some(e) = v.iter_mut().find(|e| e.0 == k) {
    if e.1 < i {
      e.1 = i;
    }
  } else if i > 0 {
    v.push((k, i));
  }
}
fn view_join(a: &mut View, b: &View) {
  for (k, i) in b {
    view_raise(a, *k, *i);
  }
}

/// One store in the modification order of an atomic location.
struct Msg {
  /// `None`: the location was overwritten non-atomically (or before the threads started); such a message can
  /// only be read while it is the newest one, and then the value is whatever memory holds
  val: Option<u64>,
  /// what an acquire load of this message synchronises with (release sequences included)
  relvc: Option<Vc>,
  relview: Option<View>,
}

struct Loc {
  msgs: Vec<Msg>,
  /// index of the newest non-atomic overwrite: nothing older can be read without a data race
  base: u32,
}

/// Operational release/acquire model ("views"): stores append to the modification order of their location, a load
/// may read any message from the reading thread's view of the location onwards, acquire loads join the view the
/// releasing store published, read-modify-writes read the newest message.  Every behaviour it produces is allowed
/// by the C11 model (it is the promise-free fragment with the modification order equal to the execution order).
#[derive(Default)]
pub struct Weak {
  locs: BTreeMap<usize, Loc>,
  tv: Vec<View>,
  pub stale_reads: u64,
}

pub const NT: usize = 6;
type Vc = [u32; NT];

fn join(a: &mut Vc, b: &Vc) {
  for i in 0..NT {
    if b[i] > a[i] {
      a[i] = b[i];
    }
  }
}

#[derive(Clone, Copy, Default)]
struct ByteState {
  /// last plain write: (tid+1, clock, label)
  pw: (u8, u32, u16),
  /// last plain read per thread: clock (0 = none)
  pr: [u32; NT],
  prl: [u16; NT],
  /// last atomic access per thread: clock, write?, label
  at: [(u32, bool, u16); NT],
}

pub struct Hb {
  vc: Vec<Vc>,
  /// per atomic location: release clock an acquire would join
  rel: HashMap<usize, Vc>,
  bytes: Vec<ByteState>,
  labels: Vec<Label>,
  label_ix: HashMap<(usize, u32, u8), u16>,
  plain_ix: HashMap<usize, u16>,
  /// clock of the last arena-related event of each thread
  last: Vc,
  /// resolves (file, line) to the enclosing function name; only called when a race is reported
  resolve: fn(&str, u32) -> String,
  pub races: u64,
  /// Some(..): loads may read older messages (exploration of non-SC executions)
  pub weak: Option<Weak>,
}

#[derive(Clone, Copy)]
enum Label {
  None,
  Atomic(&'static str, u32, Kind),
  Plain(&'static str),
}

fn acq(o: Ordering) -> bool {
  matches!(o, Ordering::Acquire | Ordering::AcqRel | Ordering::SeqCst)
}
fn rel(o: Ordering) -> bool {
  matches!(o, Ordering::Release | Ordering::AcqRel | Ordering::SeqCst)
}

impl Hb {
  pub fn new(threads: usize, cap: usize, resolve: fn(&str, u32) -> String) -> Self {
    assert!(threads <= NT);
    let mut vc = vec![[0u32; NT]; NT];
    for (t, v) in vc.iter_mut().enumerate() {
      v[t] = 1;
    }
    Hb { vc, rel: HashMap::new(), bytes: vec![ByteState::default(); cap], labels: vec![Label::None], label_ix: HashMap::new(), plain_ix: HashMap::new(), last: [0; NT], resolve, races: 0, weak: None }
  }

  /// thread `init` spawned all others after everything it did so far
  pub fn init_done(&mut self, init: usize) {
    let c = self.vc[init];
    for t in 0..NT {
      if t != init {
        join(&mut self.vc[t], &c);
      }
    }
    self.vc[init][init] += 1;
  }

  fn tick(&mut self, t: usize) -> u32 {
    self.vc[t][t] += 1;
    self.last[t] = self.vc[t][t];
    self.vc[t][t]
  }

  fn label_atomic(&mut self, file: &'static str, line: u32, kind: Kind) -> u16 {
    let k = (file.as_ptr() as usize, line, kind as u8);
    if let Some(i) = self.label_ix.get(&k) {
      return *i;
    }
    self.labels.push(Label::Atomic(file, line, kind));
    let i = (self.labels.len() - 1) as u16;
    self.label_ix.insert(k, i);
    i
  }

  fn label_plain(&mut self, l: &'static str) -> u16 {
    if let Some(i) = self.plain_ix.get(&(l.as_ptr() as usize)) {
      return *i;
    }
    self.labels.push(Label::Plain(l));
    let i = (self.labels.len() - 1) as u16;
    self.plain_ix.insert(l.as_ptr() as usize, i);
    i
  }

  fn report(&mut self, out: &mut Vec<(String, String)>, now: u16, t: usize, earlier: u16, u: usize, off: usize) {
    self.races += 1;
    let name = |l: Label| match l {
      Label::None => "?".to_string(),
      Label::Atomic(f, ln, k) => format!("atomic-{:?}@{}", k, (self.resolve)(f, ln)),
      Label::Plain(p) => format!("plain:{}", p),
    };
    let (a, b) = (name(self.labels[earlier as usize]), name(self.labels[now as usize]));
    out.push((format!("hb-race:{}-vs-{}", a, b), format!("byte @{}: {} by thread {} is not ordered by happens-before after {} by thread {}", off, b, t, a, u)));
  }

  pub fn enable_weak(&mut self) {
    self.weak = Some(Weak { locs: BTreeMap::new(), tv: vec![vec![]; NT], stale_reads: 0 });
  }

  /// The messages thread `t` may read at `key` by a load with ordering `o`, newest first, one per distinct value:
  /// `(message index, value)`.  `latest` is what memory holds.
  pub fn load_candidates(&mut self, t: usize, key: usize, o: Ordering, latest: u64) -> Vec<(u32, u64)> {
    let Some(w) = self.weak.as_mut() else { return vec![] };
    // first access of the execution to this location: what memory holds is the newest write before the threads
    // started (or a non-atomic write since then)
    let l = w.locs.entry(key).or_insert_with(|| Loc { msgs: vec![Msg { val: Some(latest), relvc: None, relview: None }], base: 0 });
    let last = l.msgs.len() - 1;
    if let Some(v) = l.msgs[last].val {
      if v != latest {
        // memory was changed behind the monitor's back (a plain write it was not told about)
        l.msgs.push(Msg { val: None, relvc: None, relview: None });
        l.base = l.msgs.len() as u32 - 1;
      }
    }
    let last = l.msgs.len() as u32 - 1;
    let mut out = vec![(last, latest)];
    if matches!(o, Ordering::SeqCst) {
      return out;
    }
    let floor = view_get(&w.tv[t], key).max(l.base);
    let mut i = last;
    while i > floor {
      i -= 1;
      if let Some(v) = l.msgs[i as usize].val {
        if !out.iter().any(|c| c.1 == v) {
          out.push((i, v));
        }
      }
    }
    out
  }

  #[allow(clippy::too_many_arguments)]
  pub fn atomic(&mut self, t: usize, key: usize, size: usize, kind: Kind, succ: Ordering, fail: Ordering, ok: bool, file: &'static str, line: u32, out: &mut Vec<(String, String)>) {
    self.atomic_at(t, key, size, kind, succ, fail, ok, file, line, None, 0, 0, out)
  }

  /// `read_idx`: the message a load read (weak mode; `None` = the newest); `old` / `new`: values before and after
  #[allow(clippy::too_many_arguments)]
  pub fn atomic_at(&mut self, t: usize, key: usize, size: usize, kind: Kind, succ: Ordering, fail: Ordering, ok: bool, file: &'static str, line: u32, read_idx: Option<u32>, old: u64, new: u64, out: &mut Vec<(String, String)>) {
    let c = self.tick(t);
    let is_write = match kind {
      Kind::Load => false,
      Kind::Cas => ok,
      _ => true,
    };
    let is_rmw = matches!(kind, Kind::Cas | Kind::FetchAdd | Kind::FetchSub) && is_write;
    let ord = if matches!(kind, Kind::Cas) && !ok { fail } else { succ };
    // conflicts with plain accesses (image bytes only)
    if key < self.bytes.len() {
      let lab = self.label_atomic(file, line, kind);
      let mut reported = false;
      for b in key..(key + size).min(self.bytes.len()) {
        let s = self.bytes[b];
        let (wt, wc, wl) = s.pw;
        if wt != 0 && (wt as usize - 1) != t && self.vc[t][wt as usize - 1] < wc && !reported {
          self.report(out, lab, t, wl, wt as usize - 1, b);
          reported = true;
        }
        if is_write && !reported {
          for u in 0..NT {
            if u != t && s.pr[u] != 0 && self.vc[t][u] < s.pr[u] {
              self.report(out, lab, t, s.prl[u], u, b);
              reported = true;
              break;
            }
          }
        }
        self.bytes[b].at[t] = (c, is_write, lab);
      }
    }
    if self.weak.is_some() {
      self.weak_sync(t, key, is_write, is_rmw, ord, read_idx, old, new);
      return;
    }
    // synchronisation
    if acq(ord) {
      if let Some(r) = self.rel.get(&key).copied() {
        join(&mut self.vc[t], &r);
      }
    }
    if is_write {
      let mine = self.vc[t];
      if is_rmw {
        // continues every release sequence it reads from; heads its own if it is a release
        if rel(ord) {
          let e = self.rel.entry(key).or_insert([0; NT]);
          join(e, &mine);
        }
      } else if rel(ord) {
        self.rel.insert(key, mine);
      } else {
        // a relaxed store ends the release sequences on this location
        self.rel.remove(&key);
      }
    }
  }

  #[allow(clippy::too_many_arguments)]
  fn weak_sync(&mut self, t: usize, key: usize, is_write: bool, is_rmw: bool, ord: Ordering, read_idx: Option<u32>, old: u64, new: u64) {
    let w = self.weak.as_mut().unwrap();
    let l = w.locs.entry(key).or_insert_with(|| Loc { msgs: vec![Msg { val: Some(old), relvc: None, relview: None }], base: 0 });
    let last = l.msgs.len() as u32 - 1;
    if !is_write || is_rmw {
      // the message read: a load reads `read_idx`, a (failed or successful) read-modify-write the newest one
      let i = if is_write { last } else { read_idx.unwrap_or(last) };
      if i < last {
        w.stale_reads += 1;
      }
      view_raise(&mut w.tv[t], key, i);
      if acq(ord) {
        let m = &l.msgs[i as usize];
        if let Some(r) = m.relvc {
          join(&mut self.vc[t], &r);
        }
        if let Some(v) = m.relview.clone() {
          view_join(&mut w.tv[t], &v);
        }
      }
    }
    if is_write {
      let idx = last + 1;
      view_raise(&mut w.tv[t], key, idx);
      let (mut relvc, mut relview) = if is_rmw {
        // continues every release sequence it reads from
        let m = &l.msgs[last as usize];
        (m.relvc, m.relview.clone())
      } else {
        (None, None)
      };
      if rel(ord) {
        let mine = self.vc[t];
        match relvc.as_mut() {
          Some(r) => join(r, &mine),
          None => relvc = Some(mine),
        }
        match relview.as_mut() {
          Some(v) => view_join(v, &w.tv[t]),
          None => relview = Some(w.tv[t].clone()),
        }
      }
      l.msgs.push(Msg { val: Some(new), relvc, relview });
    }
  }

  /// a non-atomic write covers `[off, off+len)`: older messages of the atomic locations in it are gone
  fn weak_plain_write(&mut self, off: usize, len: usize) {
    if let Some(w) = self.weak.as_mut() {
      for (_, l) in w.locs.range_mut(off.saturating_sub(7)..off + len) {
        l.msgs.push(Msg { val: None, relvc: None, relview: None });
        l.base = l.msgs.len() as u32 - 1;
      }
    }
  }

  pub fn plain(&mut self, t: usize, off: usize, len: usize, write: bool, label: &'static str, out: &mut Vec<(String, String)>) {
    if write {
      self.weak_plain_write(off, len);
    }
    let c = self.tick(t);
    let lab = self.label_plain(label);
    let mut reported = false;
    for b in off..(off + len).min(self.bytes.len()) {
      let s = self.bytes[b];
      let (wt, wc, wl) = s.pw;
      if !reported && wt != 0 && (wt as usize - 1) != t && self.vc[t][wt as usize - 1] < wc {
        self.report(out, lab, t, wl, wt as usize - 1, b);
        reported = true;
      }
      for u in 0..NT {
        if u == t || reported {
          continue;
        }
        let (ac, aw, al) = s.at[u];
        if ac != 0 && (aw || write) && self.vc[t][u] < ac {
          self.report(out, lab, t, al, u, b);
          reported = true;
        }
        if write && s.pr[u] != 0 && self.vc[t][u] < s.pr[u] && !reported {
          self.report(out, lab, t, s.prl[u], u, b);
          reported = true;
        }
      }
      if write {
        self.bytes[b].pw = (t as u8 + 1, c, lab);
      } else {
        self.bytes[b].pr[t] = c;
        self.bytes[b].prl[t] = lab;
      }
    }
  }

  /// the backing memory is released by `t`: must be after every access of every other thread
  pub fn teardown(&mut self, t: usize, out: &mut Vec<(String, String)>) {
    self.tick(t);
    for u in 0..NT {
      if u != t && self.last[u] != 0 && self.vc[t][u] < self.last[u] {
        self.races += 1;
        out.push((format!("hb-race:teardown-not-after-thread-accesses"), format!("backing memory released by thread {} without happens-before from the last arena access of thread {} (clock {} vs seen {})", t, u, self.last[u], self.vc[t][u])));
        break;
      }
    }
  }
}
