//! Evidence, violations, known findings, exit codes, small parallel helpers.
use serde_json::{json, Map, Value};
use std::collections::{BTreeMap, HashSet};
use std::hash::{Hash, Hasher};
use std::path::PathBuf;
use std::sync::atomic::{AtomicBool, AtomicU64, AtomicUsize, Ordering};
use std::sync::Mutex;
use std::time::Instant;

pub fn verif_root() -> PathBuf {
  std::env::var("VERIF_ROOT")
    .map(PathBuf::from)
    .unwrap_or_else(|_| PathBuf::from("/verif"))
}

pub fn repo_root() -> PathBuf {
  std::env::var("VERIF_REPO")
    .map(PathBuf::from)
    .unwrap_or_else(|_| PathBuf::from("/repo"))
}

#[derive(Clone, Copy, PartialEq, Eq, Debug)]
pub enum Tier {
  Quick,
  Thorough,
}

impl Tier {
  pub fn name(self) -> &'static str {
    match self {
      Tier::Quick => "quick",
      Tier::Thorough => "thorough",
    }
  }
}

pub fn hash_of<T: Hash>(t: &T) -> u64 {
  let mut h = Fnv(0xcbf29ce484222325);
  t.hash(&mut h);
  h.finish()
}

/// FNV-1a, deterministic across runs (std's SipHash with fixed keys would do as well).
pub struct Fnv(pub u64);
impl Hasher for Fnv {
  fn finish(&self) -> u64 {
    // final avalanche so that low bits are usable for sharding
    let mut x = self.0;
    x ^= x >> 33;
    x = x.wrapping_mul(0xff51afd7ed558ccd);
    x ^= x >> 33;
    x
  }
  fn write(&mut self, bytes: &[u8]) {
    for b in bytes {
      self.0 ^= *b as u64;
      self.0 = self.0.wrapping_mul(0x100000001b3);
    }
  }
}

const SHARDS: usize = 64;

/// Concurrent set of 64-bit hashes, only used to *count* distinct things.
pub struct HashCount {
  shards: Vec<Mutex<HashSet<u64>>>,
  cap_per_shard: usize,
  pub saturated: AtomicBool,
}

impl HashCount {
  pub fn new(cap_total: usize) -> Self {
    HashCount {
      shards: (0..SHARDS).map(|_| Mutex::new(HashSet::new())).collect(),
      cap_per_shard: cap_total / SHARDS + 1,
      saturated: AtomicBool::new(false),
    }
  }
  /// returns true if new
  pub fn insert(&self, h: u64) -> bool {
    let mut s = self.shards[(h as usize) % SHARDS].lock().unwrap();
    if s.len() >= self.cap_per_shard {
      self.saturated.store(true, Ordering::Relaxed);
      return s.contains(&h);
    }
    s.insert(h)
  }
  pub fn len(&self) -> usize {
    self.shards.iter().map(|s| s.lock().unwrap().len()).sum()
  }
  pub fn dump(&self) -> Vec<u64> {
    self.shards.iter().flat_map(|s| s.lock().unwrap().iter().cloned().collect::<Vec<_>>()).collect()
  }
}

#[derive(Clone, Debug)]
pub struct Violation {
  pub property: String,
  /// root-cause class used for known-finding matching
  pub signature: String,
  pub message: String,
  pub replay: Value,
}

pub struct Run {
  pub property: String,
  pub tier: Tier,
  pub seed: u64,
  pub level: &'static str,
  pub start: Instant,
  pub evaluations: AtomicU64,
  pub transitions: AtomicU64,
  pub nontrivial: HashCount,
  pub states: HashCount,
  pub samples: Mutex<Vec<Value>>,
  pub max_samples: usize,
  pub violations: Mutex<BTreeMap<String, (u64, Violation)>>,
  pub extra: Mutex<Map<String, Value>>,
  pub assumptions: Mutex<Vec<String>>,
  pub rule: Mutex<String>,
  pub exhaustive: AtomicBool,
  pub stop: AtomicBool,
  pub distinct_violation_cap: usize,
}

impl Run {
  pub fn new(property: &str, tier: Tier, level: &'static str) -> Self {
    let seed = std::env::var("VERIF_SEED")
      .ok()
      .and_then(|s| s.parse::<u64>().ok())
      .unwrap_or(0);
    Run {
      property: property.to_string(),
      tier,
      seed,
      level,
      start: Instant::now(),
      evaluations: AtomicU64::new(0),
      transitions: AtomicU64::new(0),
      nontrivial: HashCount::new(40_000_000),
      states: HashCount::new(40_000_000),
      samples: Mutex::new(vec![]),
      max_samples: 4,
      violations: Mutex::new(BTreeMap::new()),
      extra: Mutex::new(Map::new()),
      assumptions: Mutex::new(vec![]),
      rule: Mutex::new(String::new()),
      exhaustive: AtomicBool::new(true),
      stop: AtomicBool::new(false),
      distinct_violation_cap: 64,
    }
  }

  pub fn eval(&self, n: u64) {
    self.evaluations.fetch_add(n, Ordering::Relaxed);
  }
  pub fn trans(&self, n: u64) {
    self.transitions.fetch_add(n, Ordering::Relaxed);
  }
  pub fn sample(&self, f: impl FnOnce() -> Value) {
    let mut s = self.samples.lock().unwrap();
    if s.len() < self.max_samples {
      s.push(f());
    }
  }
  pub fn want_sample(&self) -> bool {
    self.samples.lock().unwrap().len() < self.max_samples
  }
  pub fn set(&self, k: &str, v: Value) {
    self.extra.lock().unwrap().insert(k.to_string(), v);
  }
  pub fn add_num(&self, k: &str, n: u64) {
    let mut e = self.extra.lock().unwrap();
    let cur = e.get(k).and_then(|v| v.as_u64()).unwrap_or(0);
    e.insert(k.to_string(), json!(cur + n));
  }
  pub fn assume(&self, s: &str) {
    self.assumptions.lock().unwrap().push(s.to_string());
  }
  pub fn rule(&self, s: &str) {
    *self.rule.lock().unwrap() = s.to_string();
  }
  pub fn not_exhaustive(&self, why: &str) {
    self.exhaustive.store(false, Ordering::Relaxed);
    let mut e = self.extra.lock().unwrap();
    let mut caps = e
      .get("caps")
      .and_then(|v| v.as_array().cloned())
      .unwrap_or_default();
    if !caps.iter().any(|c| c.as_str() == Some(why)) {
      caps.push(json!(why));
    }
    e.insert("caps".into(), Value::Array(caps));
  }

  pub fn violation(&self, v: Violation) {
    let mut m = self.violations.lock().unwrap();
    if let Some(e) = m.get_mut(&v.signature) {
      e.0 += 1;
      return;
    }
    if m.len() >= self.distinct_violation_cap {
      self.stop.store(true, Ordering::Relaxed);
      return;
    }
    m.insert(v.signature.clone(), (1, v));
  }

  pub fn stopped(&self) -> bool {
    self.stop.load(Ordering::Relaxed)
  }

  /// Write evidence, replay files, print verdict lines, return exit code.
  pub fn finish(&self) -> i32 {
    if std::env::var("VERIF_REPLAY_MODE").is_ok() {
      // replay: report what the re-run found, write nothing
      let viol = self.violations.lock().unwrap();
      for (sig, (count, v)) in viol.iter() {
        println!("  !! {} x{}: {}", sig, count, v.message);
      }
      if viol.is_empty() {
        println!("  no violation on replay");
      }
      return if viol.is_empty() { 0 } else { 1 };
    }
    let root = verif_root();
    let known = load_known(&root);
    let viol = self.violations.lock().unwrap();
    let mut new_viol = 0;
    let mut known_seen = vec![];
    let _ = std::fs::create_dir_all(root.join("replays"));
    for (sig, (count, v)) in viol.iter() {
      if let Some(k) = known.iter().find(|k| {
        k.status == "known" && k.property == v.property && sig_match(&k.signature, sig)
      }) {
        println!(
          "KNOWN-FINDING: property={} {} [signature {}; {} occurrence(s) in this run]",
          v.property, k.what_fails, sig, count
        );
        known_seen.push(json!({"signature": sig, "occurrences": count}));
        continue;
      }
      new_viol += 1;
      let h = hash_of(&(sig, &v.message));
      let p = root
        .join("replays")
        .join(format!("{}-{:016x}.json", v.property, h));
      let body = json!({
        "property": v.property, "signature": sig, "message": v.message,
        "occurrences": count, "case": v.replay,
      });
      let _ = std::fs::write(&p, serde_json::to_string_pretty(&body).unwrap());
      println!("VIOLATION property={} replay={}", v.property, p.display());
      println!("  signature: {}", sig);
      println!("  message:   {}", v.message);
    }
    let wall = self.start.elapsed().as_secs_f64();
    let mut cov = Map::new();
    let evals = self.evaluations.load(Ordering::Relaxed);
    let trans = self.transitions.load(Ordering::Relaxed);
    cov.insert("evaluations".into(), json!(evals));
    cov.insert("distinct_nontrivial".into(), json!(self.nontrivial.len()));
    cov.insert("rule".into(), json!(*self.rule.lock().unwrap()));
    cov.insert(
      "samples".into(),
      Value::Array(self.samples.lock().unwrap().clone()),
    );
    if self.level == "model_checking" {
      cov.insert("states".into(), json!(self.states.len()));
      cov.insert("transitions".into(), json!(trans));
      cov.insert("traces_validated_against_impl".into(), json!(evals));
    } else if trans > 0 {
      cov.insert("transitions".into(), json!(trans));
      cov.insert("states".into(), json!(self.states.len()));
    }
    cov.insert(
      "exhaustive".into(),
      json!(self.exhaustive.load(Ordering::Relaxed) && !self.stopped()),
    );
    if self.states.saturated.load(Ordering::Relaxed)
      || self.nontrivial.saturated.load(Ordering::Relaxed)
    {
      cov.insert("distinct_counters_saturated".into(), json!(true));
    }
    cov.insert("known_findings_seen".into(), Value::Array(known_seen));
    for (k, v) in self.extra.lock().unwrap().iter() {
      cov.insert(k.clone(), v.clone());
    }
    let ev = json!({
      "property_id": self.property,
      "tier": self.tier.name(),
      "seed": self.seed,
      "level": self.level,
      "coverage": Value::Object(cov),
      "assumptions": *self.assumptions.lock().unwrap(),
      "wall_s": wall,
      "violations": new_viol,
    });
    let _ = std::fs::create_dir_all(root.join("evidence"));
    let path = root.join("evidence").join(format!("{}.json", self.property));
    std::fs::write(&path, serde_json::to_string_pretty(&ev).unwrap()).expect("write evidence");
    println!(
      "{} {}: evaluations={} transitions={} states={} distinct_nontrivial={} violations={} wall={:.1}s",
      self.property,
      self.tier.name(),
      evals,
      trans,
      self.states.len(),
      self.nontrivial.len(),
      new_viol,
      wall
    );
    if new_viol > 0 {
      1
    } else {
      0
    }
  }
}

#[derive(Clone, Debug)]
pub struct Known {
  pub property: String,
  pub signature: String,
  pub what_fails: String,
  pub status: String,
}

/// a known signature may end in `*` (prefix match)
fn sig_match(pat: &str, sig: &str) -> bool {
  if let Some(p) = pat.strip_suffix('*') {
    sig.starts_with(p)
  } else {
    pat == sig
  }
}

pub fn load_known(root: &PathBuf) -> Vec<Known> {
  let p = root.join("known_findings.json");
  let Ok(s) = std::fs::read_to_string(&p) else {
    return vec![];
  };
  let Ok(v) = serde_json::from_str::<Value>(&s) else {
    eprintln!("machinery: known_findings.json does not parse");
    std::process::exit(2);
  };
  v.get("findings")
    .and_then(|f| f.as_array())
    .map(|a| {
      a.iter()
        .map(|e| Known {
          property: e["property"].as_str().unwrap_or("").to_string(),
          signature: e["signature"].as_str().unwrap_or("").to_string(),
          what_fails: e["what_fails"].as_str().unwrap_or("").to_string(),
          status: e["status"].as_str().unwrap_or("").to_string(),
        })
        .collect()
    })
    .unwrap_or_default()
}

pub fn nthreads() -> usize {
  std::env::var("VERIF_THREADS")
    .ok()
    .and_then(|s| s.parse().ok())
    .unwrap_or_else(|| {
      std::thread::available_parallelism()
        .map(|n| n.get())
        .unwrap_or(4)
    })
}

/// Run `f` over all items on `nthreads()` OS threads (work stealing by atomic index).
pub fn par_for_each<T: Sync, F: Fn(usize, &T) + Sync>(items: &[T], f: F) {
  let next = AtomicUsize::new(0);
  let n = nthreads().min(items.len().max(1));
  std::thread::scope(|s| {
    for _ in 0..n {
      s.spawn(|| {
        loop {
          let i = next.fetch_add(1, Ordering::Relaxed);
          if i >= items.len() {
            break;
          }
          f(i, &items[i]);
        }
        // a worker that has run out of items is idle, not hung: the watchdog must not keep timing its last case
        crate::crashguard::clear_case();
      });
    }
  });
}

/// line -> enclosing `fn` name map for a source file of the subject (signatures survive line shifts)
pub struct FnMap {
  files: Mutex<BTreeMap<String, Vec<(u32, String)>>>,
}

impl FnMap {
  pub fn new() -> Self {
    FnMap {
      files: Mutex::new(BTreeMap::new()),
    }
  }
  pub fn lookup(&self, file: &str, line: u32) -> String {
    let mut m = self.files.lock().unwrap();
    let e = m.entry(file.to_string()).or_insert_with(|| {
      let mut v = vec![];
      let cands = [
        PathBuf::from(file),
        repo_root().join(file),
        repo_root().join("rarena-allocator").join(file),
      ];
      for c in cands {
        if let Ok(s) = std::fs::read_to_string(&c) {
          for (i, l) in s.lines().enumerate() {
            let t = l.trim_start();
            let t = t
              .trim_start_matches("pub(crate) ")
              .trim_start_matches("pub(super) ")
              .trim_start_matches("pub ")
              .trim_start_matches("unsafe ")
              .trim_start_matches("const ");
            if let Some(rest) = t.strip_prefix("fn ") {
              let name: String = rest
                .chars()
                .take_while(|c| c.is_alphanumeric() || *c == '_')
                .collect();
              v.push((i as u32 + 1, name));
            }
          }
          break;
        }
      }
      v
    });
    let mut best = "?".to_string();
    for (l, n) in e.iter() {
      if *l <= line {
        best = n.clone();
      } else {
        break;
      }
    }
    best
  }
}
