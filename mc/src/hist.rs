//! E2 — bounded exhaustive operation histories on the real arenas, with the shared oracles.
use crate::layouts::{with_layout, LayoutVisitor};
use crate::report::{hash_of, par_for_each, Run, Violation};
use crate::subject::*;
use rarena_allocator::verif::Snapshot;
use rarena_allocator::{
  Allocator, ArenaPosition, Buffer, BytesMut, BytesRefMut, Error, Owned, RefMut,
};
use serde::{Deserialize, Serialize};
use serde_json::{json, Value};
use std::cell::Cell;
use std::path::PathBuf;
use std::rc::Rc;

pub const MAX_SLOTS: usize = 4;

// oracle flags
pub const O_SHADOW: u32 = 1 << 0; // C01
pub const O_ZERO: u32 = 1 << 1; // C08
pub const O_CAPALIGN: u32 = 1 << 2; // C03
pub const O_FREELIST: u32 = 1 << 3; // C10
pub const O_DISCARDED: u32 = 1 << 4; // C20
pub const O_ERRSTATE: u32 = 1 << 5; // C04 (failed call leaves state unchanged)
pub const O_RELEASE: u32 = 1 << 6; // C13 (drop/detach/dealloc effects)
pub const O_LAYOUT: u32 = 1 << 7; // C16 (reserved immutable, remaining = cap - allocated, first offset)
pub const O_REWIND: u32 = 1 << 8; // C17
pub const O_ALL: u32 = 0x1ff;
/// C04: every access the operation makes to shared memory (atomic accesses, zeroing) lies inside the arena
pub const O_BOUNDS: u32 = 1 << 9;
/// C07: the operation returns within a budget of atomic accesses / back-off calls (a single thread has nobody
/// to wait for: an operation that exceeds the budget never returns)
pub const O_TERM: u32 = 1 << 10;
pub const TERM_BUDGET: i64 = 4000;
/// atomic accesses one operation may make under the bounds monitor (255 retries of a walk over a short list fit)
pub const BOUNDS_BUDGET: usize = 60_000;
/// C15: after every step the cursor lies in [data_offset, capacity], the slices have the documented lengths and
/// the readers around the cursor and the capacity decode the bytes below allocated() and refuse everything else
pub const O_READERS: u32 = 1 << 11;

thread_local! {
  static TERM_LEFT: std::cell::Cell<i64> = const { std::cell::Cell::new(0) };
}
pub struct TermBudget;
struct TermHook;
static TERM_HOOK: TermHook = TermHook;
impl TermHook {
  fn tick(&self) {
    let left = TERM_LEFT.with(|c| {
      c.set(c.get() - 1);
      c.get()
    });
    if left < 0 && !std::thread::panicking() {
      std::panic::panic_any(TermBudget);
    }
  }
}
impl rarena_allocator::verif::Hook for TermHook {
  fn before(&self, _: &rarena_allocator::verif::Event) {
    self.tick()
  }
  fn after(&self, _: &rarena_allocator::verif::Event, _: u64, _: u64, _: bool) {}
  fn spin(&self, _: bool) {
    self.tick()
  }
  fn plain_write(&self, _: usize, _: usize) {}
  fn teardown(&self, _: usize, _: usize) {}
}

thread_local! {
  /// (address, length, is the arena's zeroing write) of every reported access of the current operation
  static ACCESSES: std::cell::RefCell<Vec<(usize, usize, bool)>> = const { std::cell::RefCell::new(Vec::new()) };
}

struct BoundsHook;
static BOUNDS_HOOK: BoundsHook = BoundsHook;

impl rarena_allocator::verif::Hook for BoundsHook {
  fn before(&self, ev: &rarena_allocator::verif::Event) {
    let n = ACCESSES.with(|a| {
      let mut a = a.borrow_mut();
      a.push((ev.addr, ev.size as usize, false));
      a.len()
    });
    // one thread has nobody to wait for: an operation that keeps making atomic accesses does not return
    if n > BOUNDS_BUDGET && !std::thread::panicking() {
      std::panic::panic_any(TermBudget);
    }
  }
  fn after(&self, _: &rarena_allocator::verif::Event, _: u64, _: u64, _: bool) {}
  fn spin(&self, _: bool) {}
  fn plain_write(&self, addr: usize, len: usize) {
    ACCESSES.with(|a| a.borrow_mut().push((addr, len, true)));
  }
  fn teardown(&self, _: usize, _: usize) {}
}

pub fn prop_of(flag: u32) -> &'static str {
  match flag {
    O_SHADOW => "C01",
    O_ZERO => "C08",
    O_CAPALIGN => "C03",
    O_FREELIST => "C10",
    O_DISCARDED => "C20",
    O_ERRSTATE => "C04",
    O_RELEASE => "C13",
    O_LAYOUT => "C16",
    O_REWIND => "C17",
    O_BOUNDS => "C04",
    O_TERM => "C07",
    O_READERS => "C15",
    _ => "C??",
  }
}

#[derive(Clone, Copy, Debug, PartialEq, Eq, Hash, Serialize, Deserialize)]
pub enum Ty {
  /// align, size
  L(u32, u32),
  /// a type that needs dropping (16 bytes, align 8)
  Dc,
  /// a zero-sized type that needs dropping (its drops are counted through a thread-local pointer to the runner's counter)
  DcZ,
}

impl Ty {
  pub fn align(self) -> u32 {
    match self {
      Ty::L(a, _) => a,
      Ty::Dc => 8,
      Ty::DcZ => 1,
    }
  }
  pub fn size(self) -> u32 {
    match self {
      Ty::L(_, s) => s,
      Ty::Dc => 16,
      Ty::DcZ => 0,
    }
  }
}

pub const U8: Ty = Ty::L(1, 1);
pub const U16: Ty = Ty::L(2, 2);
pub const U32: Ty = Ty::L(4, 4);
pub const U64: Ty = Ty::L(8, 8);
pub const A16: Ty = Ty::L(16, 32);
pub const UNIT: Ty = Ty::L(1, 0);

#[derive(Clone, Copy, Debug, PartialEq, Eq, Hash, Serialize, Deserialize)]
pub enum Sz {
  N(u32),
  /// remaining()
  R,
  /// remaining() - k (saturating)
  Rm(u32),
  /// remaining() + k
  Rp(u32),
  /// u32::MAX - allocated() + k (the size at which cursor + size wraps around)
  Wrap(i32),
}

#[derive(Clone, Copy, Debug, PartialEq, Eq, Hash, Serialize, Deserialize)]
pub enum Pos {
  Start(u32),
  End(u32),
  Cur(i64),
}

#[derive(Clone, Copy, Debug, PartialEq, Eq, Hash, Serialize, Deserialize)]
pub enum Op {
  B(Sz),
  BO(Sz),
  AB(Ty, Sz),
  ABO(Ty, Sz),
  T(Ty),
  TO(Ty),
  /// drop handle i
  D(u8),
  /// detach then drop handle i
  X(u8),
  /// detach, drop, then explicit dealloc(buffer_offset, buffer_capacity)
  F(u8),
  Disc,
  SetMin(u32),
  IncDisc(u32),
  Rewind(Pos),
  Clear,
}

impl Op {
  pub fn short(&self) -> String {
    fn sz(s: &Sz) -> String {
      match s {
        Sz::N(n) => format!("{n}"),
        Sz::R => "R".into(),
        Sz::Rm(k) => format!("R-{k}"),
        Sz::Rp(k) => format!("R+{k}"),
        Sz::Wrap(k) => format!("MAX-allocated{k:+}"),
      }
    }
    fn ty(t: &Ty) -> String {
      match t {
        Ty::L(a, s) => format!("a{a}s{s}"),
        Ty::Dc => "Dc".into(),
        Ty::DcZ => "DcZ".into(),
      }
    }
    match self {
      Op::B(s) => format!("B({})", sz(s)),
      Op::BO(s) => format!("BO({})", sz(s)),
      Op::AB(t, s) => format!("AB<{}>({})", ty(t), sz(s)),
      Op::ABO(t, s) => format!("ABO<{}>({})", ty(t), sz(s)),
      Op::T(t) => format!("T<{}>", ty(t)),
      Op::TO(t) => format!("TO<{}>", ty(t)),
      Op::D(i) => format!("D{i}"),
      Op::X(i) => format!("X{i}"),
      Op::F(i) => format!("F{i}"),
      Op::Disc => "Disc".into(),
      Op::SetMin(v) => format!("SetMin({v})"),
      Op::IncDisc(v) => format!("IncDisc({v})"),
      Op::Rewind(p) => format!("Rewind({p:?})"),
      Op::Clear => "Clear".into(),
    }
  }
}

pub fn word_str(w: &[Op]) -> String {
  w.iter().map(|o| o.short()).collect::<Vec<_>>().join(" ")
}

thread_local! {
  /// the drop counter of the runner whose step is executing (zero-sized values cannot carry a pointer to it)
  static CUR_DC: std::cell::RefCell<Option<Rc<Cell<u32>>>> = const { std::cell::RefCell::new(None) };
}

/// A zero-sized value that needs dropping; counts its drops in the counter of the runner that is executing.
pub struct DcZ;
impl Drop for DcZ {
  fn drop(&mut self) {
    CUR_DC.with(|c| {
      if let Some(ctr) = c.borrow().as_ref() {
        ctr.set(ctr.get() + 1);
      }
    });
  }
}

/// A value that needs dropping; counts its drops.
#[repr(C)]
pub struct Dc {
  ctr: Rc<Cell<u32>>,
  _pad: u64,
}
impl Drop for Dc {
  fn drop(&mut self) {
    self.ctr.set(self.ctr.get() + 1);
  }
}

pub trait Handle {
  fn meta(&self) -> Meta4;
  fn detach_(&mut self);
  /// address the handle itself exposes for its accessible range (None when it has none in the arena)
  fn addr(&mut self) -> Option<usize>;
}

impl<A: Allocator> Handle for BytesRefMut<'_, A> {
  fn meta(&self) -> Meta4 {
    meta_of(self)
  }
  fn detach_(&mut self) {
    unsafe { self.detach() }
  }
  fn addr(&mut self) -> Option<usize> {
    if self.capacity() == 0 {
      None
    } else {
      Some(self.as_mut_ptr() as usize)
    }
  }
}
impl<A: Allocator> Handle for BytesMut<A> {
  fn meta(&self) -> Meta4 {
    meta_of(self)
  }
  fn detach_(&mut self) {
    unsafe { self.detach() }
  }
  fn addr(&mut self) -> Option<usize> {
    if self.capacity() == 0 {
      None
    } else {
      Some(self.as_mut_ptr() as usize)
    }
  }
}
impl<T, A: Allocator> Handle for RefMut<'_, T, A> {
  fn meta(&self) -> Meta4 {
    meta_of(self)
  }
  fn detach_(&mut self) {
    unsafe { self.detach() }
  }
  fn addr(&mut self) -> Option<usize> {
    if std::mem::size_of::<T>() == 0 || std::mem::needs_drop::<T>() {
      None
    } else {
      Some(self.as_mut_ptr().as_ptr() as usize)
    }
  }
}
impl<T, A: Allocator> Handle for Owned<T, A> {
  fn meta(&self) -> Meta4 {
    meta_of(self)
  }
  fn detach_(&mut self) {
    unsafe { self.detach() }
  }
  fn addr(&mut self) -> Option<usize> {
    if std::mem::size_of::<T>() == 0 || std::mem::needs_drop::<T>() {
      None
    } else {
      Some(self.as_mut_ptr().as_ptr() as usize)
    }
  }
}

pub struct Live {
  pub h: Option<Box<dyn Handle>>,
  pub m: Meta4,
  pub pat: u8,
  pub needs_drop: bool,
  pub owned: bool,
  /// refs() delta observed when the handle was created (owned handles embed a clone)
  pub refs_delta: usize,
  /// drops of the value counted while the allocation step (the `write` of the value) ran: a zero-sized value is not
  /// stored anywhere, it is dropped by `write` itself
  pub dropped_at_write: u32,
}

#[derive(Clone, PartialEq, Eq, Hash, Debug, Serialize)]
pub enum Res {
  Handle(Meta4),
  /// 1 InsufficientSpace, 2 ReadOnly, 3 other
  Err(u8),
  Unit,
  Num(u32),
  Bool(bool),
}

#[derive(Clone, PartialEq, Eq, Hash, Debug, Serialize)]
pub struct Obs {
  pub res: Res,
  pub allocated: u32,
  pub discarded: u32,
  pub remaining: u32,
  pub min_seg: u32,
  pub nodes: Vec<(u32, u64)>,
}

pub fn err_kind(e: &Error) -> u8 {
  match e {
    Error::InsufficientSpace { .. } => 1,
    Error::ReadOnly => 2,
    _ => 3,
  }
}

#[derive(Clone, Debug)]
pub struct Viol {
  pub flag: u32,
  pub class: String,
  pub msg: String,
}

fn overlap(a: usize, al: usize, b: usize, bl: usize) -> bool {
  al > 0 && bl > 0 && a < b + bl && b < a + al
}

pub fn align_up(x: u64, a: u64) -> u64 {
  (x + a - 1) & !(a - 1)
}

struct AllocT<A: Subject> {
  a: &'static A,
  owned: bool,
}
impl<A: Subject> LayoutVisitor<Result<Box<dyn Handle>, Error>> for AllocT<A> {
  fn visit<T: Copy + 'static>(&mut self) -> Result<Box<dyn Handle>, Error> {
    unsafe {
      if self.owned {
        self
          .a
          .alloc_owned::<T>()
          .map(|h| Box::new(h) as Box<dyn Handle>)
      } else {
        self.a.alloc::<T>().map(|h| Box::new(h) as Box<dyn Handle>)
      }
    }
  }
}
struct AllocAB<A: Subject> {
  a: &'static A,
  owned: bool,
  n: u32,
}
impl<A: Subject> LayoutVisitor<Result<Box<dyn Handle>, Error>> for AllocAB<A> {
  fn visit<T: Copy + 'static>(&mut self) -> Result<Box<dyn Handle>, Error> {
    if self.owned {
      self
        .a
        .alloc_aligned_bytes_owned::<T>(self.n)
        .map(|h| Box::new(h) as Box<dyn Handle>)
    } else {
      self
        .a
        .alloc_aligned_bytes::<T>(self.n)
        .map(|h| Box::new(h) as Box<dyn Handle>)
    }
  }
}

pub struct Runner<A: Subject> {
  /// minimum segment size in force (configured, or set by the last set_minimum_segment_size)
  pub min_in_force: Option<u32>,
  // NOTE: field order matters for Drop: handles first, arena last (see Drop impl)
  pub slots: Vec<Live>,
  pub pinned: Vec<Live>,
  arena: Option<Box<A>>,
  /// `Cfg::via_clone`: every call of the history goes through this clone of the arena value (`a` points at it)
  via: Option<Box<A>>,
  pub a: &'static A,
  pub cfg: Cfg,
  pub dead: Vec<(usize, usize)>,
  pub tainted: bool,
  pub dc: Rc<Cell<u32>>,
  pub dc_expected: u32,
  patn: u8,
  pub path: Option<PathBuf>,
  pub slow_paths: u32,
  reserved_pat: Vec<u8>,
  id_bytes: Vec<u8>,
  pub first_alloc_done: bool,
  /// a handle that existed at the last checkpoint was released since
  pub consumed: bool,
  ckpt_slots: usize,
}

impl<A: Subject> Drop for Runner<A> {
  fn drop(&mut self) {
    // handles are detached so that tear-down never touches the arena state
    for l in self.slots.iter_mut().chain(self.pinned.iter_mut()) {
      if let Some(h) = l.h.as_mut() {
        h.detach_();
      }
    }
    self.slots.clear();
    self.pinned.clear();
    let had_path = self.path.clone();
    drop(self.via.take());
    drop(self.arena.take());
    if let Some(p) = had_path {
      let _ = std::fs::remove_file(p);
    }
  }
}

impl<A: Subject> Runner<A> {
  pub fn new(cfg: &Cfg) -> Result<Self, String> {
    let path = if cfg.backend == Backend::File {
      Some(fresh_path("hist"))
    } else {
      None
    };
    let arena: Box<A> = Box::new(build::<A>(cfg, path.as_ref())?);
    Ok(Self::from_arena(cfg, arena, path))
  }

  pub fn from_arena(cfg: &Cfg, arena: Box<A>, path: Option<PathBuf>) -> Self {
    let via: Option<Box<A>> = if cfg.via_clone { Some(Box::new((*arena).clone())) } else { None };
    let a: &'static A = match &via {
      Some(c) => unsafe { &*(&**c as *const A) },
      None => unsafe { &*(&*arena as *const A) },
    };
    let mut reserved_pat = vec![];
    if cfg.reserved > 0 && !a.read_only() {
      let s = unsafe { a.reserved_slice_mut() };
      for (i, b) in s.iter_mut().enumerate() {
        *b = 0xE0 | (i as u8 & 0x0f);
      }
      reserved_pat = s.to_vec();
    }
    let id_bytes = if cfg.unified() {
      a.memory()[cfg.reserved as usize..cfg.reserved as usize + 8].to_vec()
    } else {
      vec![]
    };
    Runner {
      min_in_force: None,
      slots: vec![],
      pinned: vec![],
      arena: Some(arena),
      via,
      a,
      cfg: *cfg,
      dead: vec![],
      tainted: false,
      dc: Rc::new(Cell::new(0)),
      dc_expected: 0,
      patn: 0,
      path,
      slow_paths: 0,
      reserved_pat,
      id_bytes,
      first_alloc_done: false,
      consumed: false,
      ckpt_slots: 0,
    }
  }

  /// give the arena back (handles are detached and forgotten first)
  pub fn into_arena(mut self) -> (Box<A>, Option<PathBuf>) {
    for l in self.slots.iter_mut().chain(self.pinned.iter_mut()) {
      if let Some(h) = l.h.as_mut() {
        h.detach_();
      }
    }
    self.slots.clear();
    self.pinned.clear();
    let p = self.path.take();
    drop(self.via.take());
    (self.arena.take().unwrap(), p)
  }

  pub fn obs(&self, res: Res) -> Obs {
    let s = self.a.snap(64);
    Obs {
      res,
      allocated: s.allocated,
      discarded: s.discarded,
      remaining: self.a.remaining() as u32,
      min_seg: s.min_segment_size,
      nodes: s.nodes,
    }
  }

  fn next_pat(&mut self) -> u8 {
    self.patn = self.patn.wrapping_add(1);
    0x80 | (self.patn & 0x7f)
  }

  fn bytes(&self, off: usize, len: usize) -> &[u8] {
    unsafe { std::slice::from_raw_parts(self.a.raw_ptr().add(off), len) }
  }

  fn fill(&self, off: usize, len: usize, pat: u8) {
    unsafe { std::ptr::write_bytes(self.a.raw_mut_ptr().add(off), pat, len) }
  }

  pub fn resolve(&self, s: Sz) -> u32 {
    let r = self.a.remaining() as u32;
    match s {
      Sz::N(n) => n,
      Sz::R => r,
      Sz::Rm(k) => r.saturating_sub(k),
      Sz::Rp(k) => r.saturating_add(k),
      Sz::Wrap(k) => ((u32::MAX as i64) - self.a.allocated() as i64 + k as i64).clamp(0, u32::MAX as i64) as u32,
    }
  }

  pub fn all_live(&self) -> impl Iterator<Item = &Live> {
    self.slots.iter().chain(self.pinned.iter())
  }

  pub fn pin(&mut self, slot: usize) {
    if slot < self.slots.len() {
      let l = self.slots.remove(slot);
      self.pinned.push(l);
    }
  }

  /// patterns of all live handles intact, reserved prefix and identification bytes untouched
  pub fn check_integrity(&self, or: u32, v: &mut Vec<Viol>, when: &str) {
    if or & O_SHADOW != 0 && !self.tainted {
      for l in self.all_live() {
        let (off, cap, _, _) = l.m;
        if off + cap > self.a.capacity() {
          continue;
        }
        if cap > 0 && self.bytes(off, cap).iter().any(|b| *b != l.pat) {
          v.push(Viol {
            flag: O_SHADOW,
            class: "live-bytes-changed".into(),
            msg: format!(
              "bytes of live handle [{},{}) changed {}: {:x?} (pattern {:x})",
              off,
              off + cap,
              when,
              self.bytes(off, cap),
              l.pat
            ),
          });
        }
      }
    }
    if or & O_LAYOUT != 0 {
      if !self.reserved_pat.is_empty() && self.a.reserved_slice() != &self.reserved_pat[..] {
        v.push(Viol {
          flag: O_LAYOUT,
          class: "reserved-written".into(),
          msg: format!("reserved prefix changed {}", when),
        });
      }
      if !self.id_bytes.is_empty()
        && self.bytes(self.cfg.reserved as usize, 8) != &self.id_bytes[..]
      {
        v.push(Viol {
          flag: O_LAYOUT,
          class: "id-bytes-written".into(),
          msg: format!("identification bytes changed {}", when),
        });
      }
      if self.a.data_offset() != self.cfg.data_offset() {
        v.push(Viol {
          flag: O_LAYOUT,
          class: "data-offset-changed".into(),
          msg: format!("data_offset() = {} {}, the layout says {}", self.a.data_offset(), when, self.cfg.data_offset()),
        });
      }
      let cap = self.a.capacity();
      let al = self.a.allocated();
      if self.a.remaining() != cap - al.min(cap) {
        v.push(Viol {
          flag: O_LAYOUT,
          class: "remaining".into(),
          msg: format!("remaining() {} != capacity {} - allocated {}", self.a.remaining(), cap, al),
        });
      }
    }
  }

  /// free-list snapshot well-formedness (C10)
  pub fn check_freelist(&self, s: &Snapshot, v: &mut Vec<Viol>) {
    let mut bad = |class: &str, msg: String| {
      v.push(Viol {
        flag: O_FREELIST,
        class: class.into(),
        msg,
      })
    };
    if s.truncated || s.cyclic {
      bad("list-cyclic", format!("free list not finite/acyclic: {:?}", s));
      return;
    }
    if s.wild {
      bad("list-wild", format!("free list leaves the arena: {:?}", s));
      return;
    }
    if self.cfg.fl == Fl::None && !s.nodes.is_empty() {
      bad("none-has-nodes", format!("Freelist::None but list has nodes {:?}", s.nodes));
    }
    let dof = self.cfg.data_offset();
    let mut prev: Option<u32> = None;
    for (i, (off, w)) in s.nodes.iter().enumerate() {
      let size = (*w >> 32) as u32;
      let (o, ext) = (*off as usize, 8 + size as usize);
      if size == 0 {
        bad("list-marked-node", format!("node at {} has size 0 (marked) at a quiescent point", off));
      }
      if o % 8 != 0 || o < dof || o + ext > self.cfg.cap as usize {
        bad("list-node-range", format!("node {}+{} misaligned or outside data area", o, ext));
      }
      if !self.tainted && o + ext > s.allocated as usize {
        bad("list-above-cursor", format!("node [{},{}) above cursor {}", o, o + ext, s.allocated));
      }
      for (o2, w2) in s.nodes.iter().skip(i + 1) {
        let e2 = 8 + (*w2 >> 32) as usize;
        if overlap(o, ext, *o2 as usize, e2) {
          bad("list-overlap", format!("segments [{},{}) and [{},{}) overlap", o, o + ext, o2, *o2 as usize + e2));
        }
      }
      if !self.tainted {
        for l in self.all_live() {
          if overlap(o, ext, l.m.0, l.m.1) || overlap(o, ext, l.m.2, l.m.3) {
            bad("list-overlaps-live", format!("segment [{},{}) overlaps live handle {:?}", o, o + ext, l.m));
          }
        }
      }
      if let Some(p) = prev {
        let ok = match self.cfg.fl {
          Fl::Optimistic => p >= size,
          Fl::Pessimistic => p <= size,
          Fl::None => true,
        };
        if !ok {
          bad("list-order", format!("list not ordered: {:?}", s.nodes.iter().map(|(o, w)| (*o, (*w >> 32) as u32)).collect::<Vec<_>>()));
        }
      }
      prev = Some(size);
    }
  }

  fn forget_all(&mut self) {
    self.consumed = true;
    for l in self.slots.iter_mut().chain(self.pinned.iter_mut()) {
      if let Some(h) = l.h.as_mut() {
        h.detach_();
      }
    }
    self.slots.clear();
    self.pinned.clear();
  }

  /// Execute one operation; `None` when the operation is disabled in this state.
  pub fn step(&mut self, op: Op, or: u32, v: &mut Vec<Viol>) -> Option<Obs> {
    CUR_DC.with(|c| *c.borrow_mut() = Some(self.dc.clone()));
    if or & O_TERM != 0 {
      TERM_LEFT.with(|c| c.set(TERM_BUDGET));
      rarena_allocator::verif::install(Some(&TERM_HOOK));
      let r = std::panic::catch_unwind(std::panic::AssertUnwindSafe(|| self.step_inner(op, or & !O_TERM, v)));
      rarena_allocator::verif::install(None);
      return match r {
        Ok(o) => o,
        Err(pl) => {
          if !pl.is::<TermBudget>() {
            std::panic::resume_unwind(pl);
          }
          v.push(Viol { flag: O_TERM, class: "operation-does-not-return".into(), msg: format!("{} performed more than {} atomic accesses / back-off calls without returning (a single thread has nobody to wait for)", op.short(), TERM_BUDGET) });
          // the arena is in the middle of an operation: the caller rebuilds it
          self.tainted = true;
          self.consumed = true;
          Some(self.obs(Res::Unit))
        }
      };
    }
    if or & O_BOUNDS == 0 {
      return self.step_inner(op, or, v);
    }
    // the arena reports its accesses to this thread's hook while the operation runs
    ACCESSES.with(|a| a.borrow_mut().clear());
    rarena_allocator::verif::install(Some(&BOUNDS_HOOK));
    struct Uninstall;
    impl Drop for Uninstall {
      fn drop(&mut self) {
        rarena_allocator::verif::install(None);
      }
    }
    let guard = Uninstall;
    let r = match std::panic::catch_unwind(std::panic::AssertUnwindSafe(|| self.step_inner(op, or, v))) {
      Ok(r) => r,
      Err(pl) => {
        drop(guard);
        if !pl.is::<TermBudget>() {
          std::panic::resume_unwind(pl);
        }
        ACCESSES.with(|a| a.borrow_mut().clear());
        v.push(Viol { flag: O_BOUNDS, class: "operation-does-not-return".into(), msg: format!("{} made more than {} atomic accesses without returning (a single thread has nobody to wait for): neither a handle nor an error", op.short(), BOUNDS_BUDGET) });
        self.tainted = true;
        self.consumed = true;
        return Some(self.obs(Res::Unit));
      }
    };
    let guard = Uninstall;
    drop(guard);
    let rg = self.a.ranges();
    let inside = |lo: usize, len: usize, base: usize, blen: usize| lo >= base && lo + len <= base + blen;
    let acc = ACCESSES.with(|a| std::mem::take(&mut *a.borrow_mut()));
    for (addr, len, zeroing) in acc {
      let ok = if zeroing { len == 0 || inside(addr, len, rg.base, rg.cap) } else { inside(addr, len, rg.base, rg.cap) || inside(addr, len, rg.header, rg.header_len) || inside(addr, len, rg.memory_box, rg.memory_box_len) };
      if !ok {
        let rel = addr as i128 - rg.base as i128;
        v.push(Viol { flag: O_BOUNDS, class: if zeroing { "zeroing-outside-arena".into() } else { "atomic-access-outside-arena".into() }, msg: format!("{}: {} of {} byte(s) at arena offset {} (capacity {})", op.short(), if zeroing { "zeroing write" } else { "atomic access" }, len, rel, rg.cap) });
        break;
      }
    }
    r
  }

  fn step_inner(&mut self, op: Op, or: u32, v: &mut Vec<Viol>) -> Option<Obs> {
    let a = self.a;
    match op {
      Op::B(_) | Op::BO(_) | Op::AB(..) | Op::ABO(..) | Op::T(_) | Op::TO(_) => {
        if self.slots.len() >= MAX_SLOTS {
          return None;
        }
        Some(self.do_alloc(op, or, v))
      }
      Op::D(i) | Op::X(i) | Op::F(i) => {
        if i as usize >= self.slots.len() {
          return None;
        }
        Some(self.do_release(op, i as usize, or, v))
      }
      Op::Disc => {
        let pre = a.snap(64);
        let r = a.discard_freelist();
        let post = a.snap(64);
        if or & O_DISCARDED != 0 {
          let sum: u32 = pre.nodes.iter().map(|(_, w)| (*w >> 32) as u32).sum();
          match &r {
            Ok(n) => {
              if a.read_only() {
                v.push(Viol { flag: O_DISCARDED, class: "discard-on-readonly".into(), msg: "discard_freelist succeeded on a read-only arena".into() });
              }
              if *n != sum || post.discarded != pre.discarded.wrapping_add(sum) || !post.nodes.is_empty() {
                v.push(Viol { flag: O_DISCARDED, class: "discard-accounting".into(), msg: format!("discard_freelist returned {} (sum of data sizes {}), discarded {} -> {}, nodes left {:?}", n, sum, pre.discarded, post.discarded, post.nodes) });
              }
            }
            Err(e) => {
              if !a.read_only() || err_kind(e) != 2 {
                v.push(Viol { flag: O_DISCARDED, class: "discard-error".into(), msg: format!("discard_freelist failed with {:?}", e) });
              }
            }
          }
          if post.allocated != pre.allocated || post.min_segment_size != pre.min_segment_size {
            v.push(Viol { flag: O_DISCARDED, class: "discard-side-effect".into(), msg: "discard_freelist changed cursor or minimum segment size".into() });
          }
        }
        if r.is_ok() {
          for (o, w) in &pre.nodes {
            self.dead.push((*o as usize, 8 + (*w >> 32) as usize));
          }
        }
        let res = match r {
          Ok(n) => Res::Num(n),
          Err(e) => Res::Err(err_kind(&e)),
        };
        self.post(or, v, &pre, Some(&post), true);
        Some(self.obs(res))
      }
      Op::SetMin(n) => {
        let pre = a.snap(64);
        a.set_minimum_segment_size(n);
        let post = a.snap(64);
        if !a.read_only() {
          self.min_in_force = Some(n);
        }
        if or & (O_DISCARDED | O_FREELIST) != 0 {
          if a.minimum_segment_size() != n || post.min_segment_size != n {
            v.push(Viol { flag: O_FREELIST, class: "setmin".into(), msg: format!("minimum_segment_size() = {} after set({})", a.minimum_segment_size(), n) });
          }
          if post.allocated != pre.allocated || post.discarded != pre.discarded || post.nodes != pre.nodes {
            v.push(Viol { flag: O_FREELIST, class: "setmin-side-effect".into(), msg: "set_minimum_segment_size changed other state".into() });
          }
        }
        self.post(or, v, &pre, Some(&post), true);
        Some(self.obs(Res::Unit))
      }
      Op::IncDisc(n) => {
        let pre = a.snap(64);
        a.increase_discarded(n);
        let post = a.snap(64);
        if or & O_DISCARDED != 0 {
          if post.discarded != pre.discarded.wrapping_add(n) || a.discarded() != post.discarded {
            v.push(Viol { flag: O_DISCARDED, class: "increase-discarded".into(), msg: format!("discarded {} -> {} after increase_discarded({})", pre.discarded, post.discarded, n) });
          }
          if post.allocated != pre.allocated || post.nodes != pre.nodes || post.min_segment_size != pre.min_segment_size {
            v.push(Viol { flag: O_DISCARDED, class: "increase-discarded-side-effect".into(), msg: "increase_discarded changed other state".into() });
          }
        }
        self.post(or, v, &pre, Some(&post), true);
        Some(self.obs(Res::Unit))
      }
      Op::Rewind(p) => {
        let pre = a.snap(64);
        let want = ref_clamp(p, pre.allocated, self.cfg.data_offset() as u32, a.capacity() as u32);
        // caller obligation of `rewind`: nothing between the new and the old cursor is used any
        // more.  A free segment up there would still be used by the arena, so such a rewind is
        // outside the properties' quantifier: disabled.
        if pre.nodes.iter().any(|(o, w)| *o as u64 + 8 + (*w >> 32) > want as u64) {
          return None;
        }
        // handles reaching above the new cursor die with the rewind
        let dies = |l: &Live| l.m.0 + l.m.1 > want as usize || l.m.2 + l.m.3 > want as usize;
        if self.slots.iter().take(self.ckpt_slots).any(dies) || self.pinned.iter().any(dies) {
          self.consumed = true;
        }
        for l in self.slots.iter_mut().chain(self.pinned.iter_mut()) {
          if dies(l) {
            if let Some(h) = l.h.as_mut() {
              h.detach_();
            }
          }
        }
        self.slots.retain(|l| !dies(l));
        self.pinned.retain(|l| !dies(l));
        self.dead.retain(|(o, l)| o + l <= want as usize);
        let pos = match p {
          Pos::Start(n) => ArenaPosition::Start(n),
          Pos::End(n) => ArenaPosition::End(n),
          Pos::Cur(d) => ArenaPosition::Current(d),
        };
        // "and changes nothing else": every byte of the arena, above the cursor too (a forward seek hands nothing
        // out and a backward seek gives nothing back), except the cursor word of an in-image header
        let img_pre: Vec<u8> = if or & O_REWIND != 0 { a.memory().to_vec() } else { vec![] };
        unsafe { a.rewind(pos) };
        let post = a.snap(64);
        if or & O_REWIND != 0 {
          let now = a.memory();
          let d = self.cfg.data_offset();
          let skip = if self.cfg.unified() { d - 16..d - 12 } else { 0..0 };
          if let Some(i) = (0..now.len().min(img_pre.len())).find(|i| !skip.contains(i) && now[*i] != img_pre[*i]) {
            v.push(Viol { flag: O_REWIND, class: "rewind-changed-bytes".into(), msg: format!("rewind({:?}) from {} changed byte {} of the arena: {:#04x} -> {:#04x}", p, pre.allocated, i, img_pre[i], now[i]) });
          }
        }
        if post.allocated != want {
          // keep the other oracles quiet after a misplaced cursor; C17 reports it
          self.tainted = true;
        }
        if or & O_REWIND != 0 {
          if post.allocated != want {
            v.push(Viol { flag: O_REWIND, class: "rewind-target".into(), msg: format!("rewind({:?}) from {}: cursor {} expected {}", p, pre.allocated, post.allocated, want) });
          }
          if post.discarded != pre.discarded || post.nodes != pre.nodes || post.min_segment_size != pre.min_segment_size || post.sentinel != pre.sentinel {
            v.push(Viol { flag: O_REWIND, class: "rewind-side-effect".into(), msg: "rewind changed something other than the cursor".into() });
          }
        }
        // (discarded() goes down through clear() only: a seek of the cursor is no exception)
        self.post(or, v, &pre, Some(&post), true);
        Some(self.obs(Res::Unit))
      }
      Op::Clear => {
        let pre = a.snap(64);
        self.forget_all();
        // in every other history a second arena value (a clone) is alive while the arena is cleared
        let keep = if self.patn % 2 == 1 { Some(a.clone()) } else { None };
        let r = unsafe { a.clear() };
        drop(keep);
        let post = a.snap(64);
        if r.is_ok() {
          self.tainted = false;
          self.dead.clear();
          if or & O_DISCARDED != 0 && (post.discarded != 0 || a.discarded() != 0) {
            v.push(Viol { flag: O_DISCARDED, class: "discarded-after-clear".into(), msg: format!("discarded() = {} after clear (header {})", a.discarded(), post.discarded) });
          }
          if or & O_REWIND != 0 {
            let dof = self.cfg.data_offset();
            if post.allocated as usize != dof || !post.nodes.is_empty() || post.discarded != 0 || post.min_segment_size != pre.min_segment_size {
              v.push(Viol { flag: O_REWIND, class: "clear-state".into(), msg: format!("after clear: {:?}", post) });
            }
            if a.data_offset() != dof {
              v.push(Viol { flag: O_REWIND, class: "clear-data-offset".into(), msg: format!("data_offset {} after clear", a.data_offset()) });
            }
            if self.bytes(dof, a.capacity() - dof).iter().any(|b| *b != 0) {
              v.push(Viol { flag: O_REWIND, class: "clear-not-zero".into(), msg: "data area not zeroed by clear".into() });
            }
          }
        }
        let res = match r {
          Ok(()) => Res::Unit,
          Err(e) => Res::Err(err_kind(&e)),
        };
        self.post(or, v, &pre, Some(&post), false);
        Some(self.obs(res))
      }
    }
  }

  /// checks shared by every step
  fn post(&mut self, or: u32, v: &mut Vec<Viol>, pre: &Snapshot, post: Option<&Snapshot>, monotone: bool) {
    self.check_integrity(or, v, "after the step");
    let owned;
    let post = match post {
      Some(p) => p,
      None => {
        owned = self.a.snap(64);
        &owned
      }
    };
    if or & O_FREELIST != 0 {
      self.check_freelist(post, v);
    }
    if or & O_DISCARDED != 0 && monotone && post.discarded < pre.discarded {
      v.push(Viol { flag: O_DISCARDED, class: "discarded-decreased".into(), msg: format!("discarded() went {} -> {}", pre.discarded, post.discarded) });
    }
    if or & O_READERS != 0 {
      self.check_readers(v);
    }
    // C16: the accessor reports the configured value until the caller sets another one (clear and rewind keep it)
    if or & O_LAYOUT != 0 {
      let want = self.min_in_force.unwrap_or(self.cfg.min_seg);
      if self.a.minimum_segment_size() != want || post.min_segment_size != want {
        v.push(Viol { flag: O_LAYOUT, class: "minimum-segment-size-accessor".into(), msg: format!("minimum_segment_size() = {} (header {}), in force: {}", self.a.minimum_segment_size(), post.min_segment_size, want) });
      }
    }
  }

  fn check_readers(&self, v: &mut Vec<Viol>) {
    for m in readers_bad(self.a).into_iter().take(2) {
      v.push(Viol { flag: O_READERS, class: "reader-bounds".into(), msg: m });
    }
  }
}

/// C15 on one arena state: cursor within [data_offset, capacity], slice lengths, readers around the cursor and the
/// capacity against the bytes of memory()
pub fn readers_bad<A: Subject>(a: &A) -> Vec<String> {
  {
    let (al, cap, dof) = (a.allocated(), a.capacity(), a.data_offset());
    let mut bad = vec![];
    if al > cap || al < dof {
      bad.push(format!("allocated() = {} outside [data_offset {}, capacity {}]", al, dof, cap));
    }
    if a.allocated_memory().len() != al || a.memory().len() != cap || a.data().len() != al.wrapping_sub(dof) {
      bad.push(format!("allocated_memory {} data {} memory {} for allocated {} data_offset {} capacity {}", a.allocated_memory().len(), a.data().len(), a.memory().len(), al, dof, cap));
    }
    if al <= cap && bad.is_empty() {
      let mem = a.memory();
      let offs = (al.saturating_sub(17)..=al + 1).chain([cap.saturating_sub(1), cap, cap + 1, cap + 16]);
      for off in offs {
        match a.get_u8(off) {
          Ok(x) => {
            if off >= al || x != mem[off] {
              bad.push(format!("get_u8({}) = Ok({:#x}) with allocated {}", off, x, al));
            }
          }
          Err(Error::OutOfBounds { .. }) => {
            if off < al {
              bad.push(format!("get_u8({}) refused with allocated {}", off, al));
            }
          }
          Err(e) => bad.push(format!("get_u8({}) failed with {}", off, e)),
        }
        match a.get_u64_le(off) {
          Ok(x) => {
            if off + 8 > al || x != u64::from_le_bytes(mem[off..off + 8].try_into().unwrap()) {
              bad.push(format!("get_u64_le({}) = Ok({:#x}) with allocated {}", off, x, al));
            }
          }
          Err(Error::OutOfBounds { .. }) => {
            if off + 8 <= al {
              bad.push(format!("get_u64_le({}) refused with allocated {}", off, al));
            }
          }
          Err(e) => bad.push(format!("get_u64_le({}) failed with {}", off, e)),
        }
        match a.get_u128_be(off) {
          Ok(x) => {
            if off + 16 > al || x != u128::from_be_bytes(mem[off..off + 16].try_into().unwrap()) {
              bad.push(format!("get_u128_be({}) = Ok({:#x}) with allocated {}", off, x, al));
            }
          }
          Err(Error::OutOfBounds { .. }) => {
            if off + 16 <= al {
              bad.push(format!("get_u128_be({}) refused with allocated {}", off, al));
            }
          }
          Err(e) => bad.push(format!("get_u128_be({}) failed with {}", off, e)),
        }
        if let Ok((n, _)) = a.get_u64_varint(off) {
          if off + n > al {
            bad.push(format!("get_u64_varint({}) consumed {} bytes with allocated {}", off, n, al));
          }
        }
      }
    }
    bad
  }
}

impl<A: Subject> Runner<A> {
  fn do_alloc(&mut self, op: Op, or: u32, v: &mut Vec<Viol>) -> Obs {
    let a = self.a;
    let pre = a.snap(64);
    let refs_before = a.refs();
    let cap = a.capacity() as u64;
    // request geometry: (align, fixed size, extra)
    let (ty, n, owned, is_bytes, is_typed) = match op {
      Op::B(s) => (UNIT, self.resolve(s), false, true, false),
      Op::BO(s) => (UNIT, self.resolve(s), true, true, false),
      Op::AB(t, s) => (t, self.resolve(s), false, false, false),
      Op::ABO(t, s) => (t, self.resolve(s), true, false, false),
      Op::T(t) => (t, 0, false, false, true),
      Op::TO(t) => (t, 0, true, false, true),
      _ => unreachable!(),
    };
    let mut needs_drop = false;
    let dc_at_entry = self.dc.get();
    let r: Result<Box<dyn Handle>, Error> = match op {
      Op::B(_) => a.alloc_bytes(n).map(|h| Box::new(h) as Box<dyn Handle>),
      Op::BO(_) => a.alloc_bytes_owned(n).map(|h| Box::new(h) as Box<dyn Handle>),
      Op::AB(Ty::L(al, sz), _) => with_layout(al, sz, &mut AllocAB { a, owned: false, n }),
      Op::ABO(Ty::L(al, sz), _) => with_layout(al, sz, &mut AllocAB { a, owned: true, n }),
      Op::AB(Ty::Dc, _) => a.alloc_aligned_bytes::<Dc>(n).map(|h| Box::new(h) as Box<dyn Handle>),
      Op::ABO(Ty::Dc, _) => a.alloc_aligned_bytes_owned::<Dc>(n).map(|h| Box::new(h) as Box<dyn Handle>),
      Op::T(Ty::L(al, sz)) => with_layout(al, sz, &mut AllocT { a, owned: false }),
      Op::TO(Ty::L(al, sz)) => with_layout(al, sz, &mut AllocT { a, owned: true }),
      Op::T(Ty::Dc) => {
        needs_drop = true;
        unsafe { a.alloc::<Dc>() }.map(|mut h| {
          h.write(Dc { ctr: self.dc.clone(), _pad: 0 });
          Box::new(h) as Box<dyn Handle>
        })
      }
      Op::TO(Ty::Dc) => {
        needs_drop = true;
        unsafe { a.alloc_owned::<Dc>() }.map(|mut h| {
          h.write(Dc { ctr: self.dc.clone(), _pad: 0 });
          Box::new(h) as Box<dyn Handle>
        })
      }
      Op::T(Ty::DcZ) => {
        needs_drop = true;
        unsafe { a.alloc::<DcZ>() }.map(|mut h| {
          h.write(DcZ);
          Box::new(h) as Box<dyn Handle>
        })
      }
      Op::TO(Ty::DcZ) => {
        needs_drop = true;
        unsafe { a.alloc_owned::<DcZ>() }.map(|mut h| {
          h.write(DcZ);
          Box::new(h) as Box<dyn Handle>
        })
      }
      Op::AB(Ty::DcZ, _) => a.alloc_aligned_bytes::<DcZ>(n).map(|h| Box::new(h) as Box<dyn Handle>),
      Op::ABO(Ty::DcZ, _) => a.alloc_aligned_bytes_owned::<DcZ>(n).map(|h| Box::new(h) as Box<dyn Handle>),
      _ => unreachable!(),
    };
    let post = a.snap(64);
    let (al, sz) = (ty.align() as u64, ty.size() as u64);
    // zero-size request: nothing to occupy
    let zero_req = if is_bytes { n == 0 } else if is_typed { sz == 0 } else { sz == 0 && n == 0 };
    // what the request needs at least / at most from a segment
    let (need_min, need_max) = if is_bytes || sz == 0 {
      (n as u64, n as u64)
    } else {
      (sz + n as u64, sz + al - 1 + n as u64)
    };
    let fresh_end = if is_bytes || sz == 0 {
      pre.allocated as u64 + n as u64
    } else {
      align_up(pre.allocated as u64, al) + sz + n as u64
    };
    let fresh_fits = fresh_end <= cap;
    let res;
    match r {
      Ok(mut h) => {
        let m = h.meta();
        res = Res::Handle(m);
        let (off, hcap, boff, bcap) = m;
        if a.read_only() && or & O_ERRSTATE != 0 && (hcap > 0 || bcap > 0 || post != pre) {
          v.push(Viol { flag: O_ERRSTATE, class: "alloc-on-readonly".into(), msg: format!("{} succeeded on a read-only arena", op.short()) });
        }
        if or & O_CAPALIGN != 0 {
          if is_bytes && hcap != n as usize {
            v.push(Viol { flag: O_CAPALIGN, class: "bytes-capacity".into(), msg: format!("{} returned capacity {}", op.short(), hcap) });
          }
          if is_typed && hcap != sz as usize {
            v.push(Viol { flag: O_CAPALIGN, class: "typed-capacity".into(), msg: format!("{} returned capacity {} (size_of {})", op.short(), hcap, sz) });
          }
          if !is_bytes && !is_typed && (hcap as u64) < sz + n as u64 {
            v.push(Viol { flag: O_CAPALIGN, class: "aligned-bytes-capacity".into(), msg: format!("{} returned capacity {} < {}", op.short(), hcap, sz + n as u64) });
          }
          if !is_bytes && sz > 0 {
            if off as u64 % al != 0 {
              v.push(Viol { flag: O_CAPALIGN, class: "offset-misaligned".into(), msg: format!("{} offset {} not a multiple of {}", op.short(), off, al) });
            }
            let addr_ok_expected = self.cfg.backend != Backend::Vec || al as usize <= self.cfg.max_align.max(8);
            let addr = a.raw_ptr() as usize + off;
            if addr_ok_expected && addr as u64 % al != 0 {
              v.push(Viol { flag: O_CAPALIGN, class: "address-misaligned".into(), msg: format!("{} address {:#x} not a multiple of {}", op.short(), addr, al) });
            }
            if let Some(p) = h.addr() {
              if p != addr {
                v.push(Viol { flag: O_CAPALIGN, class: "pointer-offset-mismatch".into(), msg: format!("{} handle pointer is arena+{} but offset() is {}", op.short(), p.wrapping_sub(a.raw_ptr() as usize), off) });
              }
            }
          }
          if zero_req && post.allocated != pre.allocated {
            v.push(Viol { flag: O_CAPALIGN, class: "zero-size-consumed".into(), msg: format!("{} consumed space: cursor {} -> {}", op.short(), pre.allocated, post.allocated) });
          }
        }
        if or & O_SHADOW != 0 {
          if zero_req {
            if hcap != 0 || bcap != 0 || post.allocated != pre.allocated || post.nodes != pre.nodes {
              v.push(Viol { flag: O_SHADOW, class: "zero-size-occupies".into(), msg: format!("{} -> {:?}, cursor {} -> {}", op.short(), m, pre.allocated, post.allocated) });
            }
          } else if !self.tainted {
            let dof = self.cfg.data_offset();
            if off < dof || off + hcap > post.allocated as usize || off + hcap > cap as usize {
              v.push(Viol { flag: O_SHADOW, class: "out-of-bounds".into(), msg: format!("{} -> [{},{}) outside [data_offset {}, allocated {})", op.short(), off, off + hcap, dof, post.allocated) });
            }
            for l in self.all_live() {
              if overlap(off, hcap, l.m.0, l.m.1) {
                v.push(Viol { flag: O_SHADOW, class: "overlap".into(), msg: format!("{} -> [{},{}) overlaps live [{},{})", op.short(), off, off + hcap, l.m.0, l.m.0 + l.m.1) });
              }
            }
          }
        }
        if or & O_RELEASE != 0 && !zero_req && !self.tainted && post.allocated > pre.allocated && post.nodes == pre.nodes {
          // served by moving the cursor: the buffer extent (what a drop gives back) is exactly what the cursor moved over
          if m.2 != pre.allocated as usize || m.2 + m.3 != post.allocated as usize {
            v.push(Viol { flag: O_RELEASE, class: "buffer-extent-not-what-was-consumed".into(), msg: format!("{} moved the cursor {} -> {}, the handle's buffer extent is [{},{})", op.short(), pre.allocated, post.allocated, m.2, m.2 + m.3) });
          }
        }
        if !self.tainted && hcap > 0 {
          for (d, dl) in &self.dead {
            if overlap(off, hcap, *d, *dl) {
              let flag = if or & O_DISCARDED != 0 { O_DISCARDED } else { O_FREELIST };
              if or & flag != 0 {
                v.push(Viol { flag, class: "discarded-space-reused".into(), msg: format!("{} -> [{},{}) reuses discarded range [{},{})", op.short(), off, off + hcap, d, d + dl) });
              }
            }
          }
        }
        // a handle that leaves the arena is reported by the shadow oracle; never touch its bytes
        let inside = off + hcap <= cap as usize && off + hcap <= a.capacity();
        if !inside && or & (O_SHADOW | O_ERRSTATE) != 0 && or & O_SHADOW == 0 {
          v.push(Viol { flag: O_ERRSTATE, class: "out-of-bounds".into(), msg: format!("{} -> [{},{}) outside the arena (capacity {})", op.short(), off, off + hcap, cap) });
        }
        if or & O_ZERO != 0 && is_bytes && hcap > 0 && inside && self.bytes(off, hcap).iter().any(|b| *b != 0) {
          v.push(Viol { flag: O_ZERO, class: "not-zeroed".into(), msg: format!("{} -> [{},{}) not zero-filled: {:x?}", op.short(), off, off + hcap, self.bytes(off, hcap)) });
        }
        if or & O_ZERO != 0 && is_bytes && hcap > 0 && !self.tainted {
          // a byte buffer that shares bytes with a handle that is still live: what the new owner reads there is
          // whatever the other owner writes (it never gave those bytes up), at any moment, also between the zeroing
          // and the return of the call
          for l in self.all_live() {
            if overlap(off, hcap, l.m.0, l.m.1) {
              v.push(Viol { flag: O_ZERO, class: "not-zeroed:shared-with-a-live-handle".into(), msg: format!("{} -> [{},{}) shares bytes with the live handle [{},{}): they read as whatever its owner writes", op.short(), off, off + hcap, l.m.0, l.m.0 + l.m.1) });
              break;
            }
          }
        }
        if or & O_LAYOUT != 0 && !self.first_alloc_done && !zero_req && pre.nodes.is_empty() {
          let dof = self.cfg.data_offset() as u64;
          if pre.allocated as u64 == dof {
            let want = if is_bytes || sz == 0 { dof } else { align_up(dof, al) };
            if off as u64 != want {
              v.push(Viol { flag: O_LAYOUT, class: "first-offset".into(), msg: format!("first allocation {} at {} expected {}", op.short(), off, want) });
            }
          }
        }
        if !zero_req {
          self.first_alloc_done = true;
        }
        // free-list policy (C10)
        if or & O_FREELIST != 0 && !zero_req && !self.tainted {
          if fresh_fits {
            // must come from fresh space: nothing in the list changes
          } else {
            self.slow_paths += 1;
            self.check_policy_success(op, &pre, &post, m, need_min, need_max, n as u64, v);
          }
        } else if !fresh_fits && !zero_req {
          self.slow_paths += 1;
        }
        // accounting (C20): what an allocation adds to discarded() was cut off from a segment it took from the list
        // and is neither part of the returned buffer nor listed again
        if or & O_DISCARDED != 0 && !self.tainted {
          let removed: u64 = pre.nodes.iter().filter(|n| !post.nodes.iter().any(|p| p.0 == n.0)).map(|(_, w)| *w >> 32).sum();
          // (the node word of a remainder that is listed again is itself accounted as discarded)
          let added: u64 = post.nodes.iter().filter(|n| !pre.nodes.iter().any(|p| p.0 == n.0)).map(|(_, w)| *w >> 32).sum();
          let dd = post.discarded.wrapping_sub(pre.discarded) as u64;
          let budget = removed.saturating_sub(bcap as u64).saturating_sub(added);
          if dd > budget {
            v.push(Viol { flag: O_DISCARDED, class: "alloc-discarded-too-much".into(), msg: format!("{}: discarded {} -> {} (+{}) while the segments taken from the list hold {} data bytes, the returned buffer extent is {} and {} data bytes were listed again", op.short(), pre.discarded, post.discarded, dd, removed, bcap, added) });
          }
        }
        let pat = self.next_pat();
        if hcap > 0 && !a.read_only() && inside {
          self.fill(off, hcap, pat);
        }
        let refs_delta = a.refs().wrapping_sub(refs_before);
        if or & O_RELEASE != 0 {
          let want = if owned && (bcap > 0 || is_typed) { Some(1) } else if owned { None } else { Some(0) };
          if let Some(w) = want {
            if refs_delta != w {
              v.push(Viol { flag: O_RELEASE, class: "refs-on-alloc".into(), msg: format!("{} changed refs() by {} (expected {})", op.short(), refs_delta, w) });
            }
          } else if refs_delta > 1 {
            v.push(Viol { flag: O_RELEASE, class: "refs-on-alloc".into(), msg: format!("{} changed refs() by {}", op.short(), refs_delta) });
          }
        }
        // C13: what a handle will give back on drop is its own: the buffer extent lies below the cursor and shares
        // no byte with a listed segment or with the buffer extent of another live handle
        if or & O_RELEASE != 0 && !self.tainted && bcap > 0 {
          if boff + bcap > post.allocated as usize {
            v.push(Viol { flag: O_RELEASE, class: "buffer-extent-not-own".into(), msg: format!("{}: buffer extent [{},{}) reaches above the cursor {}", op.short(), boff, boff + bcap, post.allocated) });
          }
          for (no, w) in &post.nodes {
            let (no, ext) = (*no as usize, 8 + (*w >> 32) as usize);
            if overlap(boff, bcap, no, ext) {
              v.push(Viol { flag: O_RELEASE, class: "buffer-extent-not-own".into(), msg: format!("{}: buffer extent [{},{}) overlaps the listed segment [{},{})", op.short(), boff, boff + bcap, no, no + ext) });
              break;
            }
          }
          for l in self.all_live() {
            if overlap(boff, bcap, l.m.2, l.m.3) {
              v.push(Viol { flag: O_RELEASE, class: "buffer-extent-not-own".into(), msg: format!("{}: buffer extent [{},{}) overlaps the buffer extent [{},{}) of a live handle", op.short(), boff, boff + bcap, l.m.2, l.m.2 + l.m.3) });
              break;
            }
          }
        }
        let dropped_at_write = self.dc.get().wrapping_sub(dc_at_entry);
        self.slots.push(Live { h: Some(h), m, pat, needs_drop, owned, refs_delta, dropped_at_write });
      }
      Err(e) => {
        let k = err_kind(&e);
        res = Res::Err(k);
        if or & O_ERRSTATE != 0 {
          if post != pre || a.refs() != refs_before {
            v.push(Viol { flag: O_ERRSTATE, class: "failed-alloc-changed-state".into(), msg: format!("{} failed with {:?} but state changed: {:?} -> {:?}", op.short(), e, pre, post) });
          }
          let want = if a.read_only() { 2 } else { 1 };
          if k != want {
            v.push(Viol { flag: O_ERRSTATE, class: "wrong-error".into(), msg: format!("{} failed with {:?}", op.short(), e) });
          }
        }
        if or & O_CAPALIGN != 0 && zero_req && !a.read_only() {
          v.push(Viol { flag: O_CAPALIGN, class: "zero-size-failed".into(), msg: format!("{} failed with {:?}", op.short(), e) });
        }
        if or & O_FREELIST != 0 && !zero_req && !self.tainted && !a.read_only() {
          if fresh_fits {
            v.push(Viol { flag: O_FREELIST, class: "fresh-space-refused".into(), msg: format!("{} failed although fresh space suffices (cursor {}, cap {})", op.short(), pre.allocated, cap) });
          } else {
            // must-fail / may-fail according to the policy
            let sizes: Vec<u64> = pre.nodes.iter().map(|(_, w)| *w >> 32).collect();
            let must_succeed = match self.cfg.fl {
              Fl::None => false,
              Fl::Optimistic => sizes.iter().max().map(|m| *m >= need_max).unwrap_or(false),
              Fl::Pessimistic => sizes.iter().any(|s| *s >= need_max),
            };
            if must_succeed {
              v.push(Viol { flag: O_FREELIST, class: "policy-refused".into(), msg: format!("{} failed although the list {:?} can serve {} bytes", op.short(), sizes, need_max) });
            }
          }
        }
      }
    }
    self.post(or, v, &pre, Some(&post), true);
    self.obs(res)
  }

  #[allow(clippy::too_many_arguments)]
  fn check_policy_success(&self, op: Op, pre: &Snapshot, post: &Snapshot, m: Meta4, need_min: u64, need_max: u64, _n: u64, v: &mut Vec<Viol>) {
    let mut bad = |class: &str, msg: String| v.push(Viol { flag: O_FREELIST, class: class.into(), msg });
    let nodes: Vec<(u64, u64)> = pre.nodes.iter().map(|(o, w)| (*o as u64, *w >> 32)).collect();
    if self.cfg.fl == Fl::None {
      bad("none-reused", format!("{} succeeded with Freelist::None although fresh space is exhausted", op.short()));
      return;
    }
    let (off, hcap, boff, _bcap) = m;
    let Some(&(coff, csize)) = nodes.iter().find(|(o, _)| *o == boff as u64) else {
      bad("served-from-nowhere", format!("{} -> {:?} is not a segment of the list {:?}", op.short(), m, nodes));
      return;
    };
    if csize < need_min {
      bad("segment-too-small", format!("{} served from segment of {} bytes, needs at least {}", op.short(), csize, need_min));
    }
    if (off as u64) < coff || off as u64 + hcap as u64 > coff + 8 + csize {
      bad("outside-segment", format!("{} -> [{},{}) leaves its segment [{},{})", op.short(), off, off + hcap, coff, coff + 8 + csize));
    }
    match self.cfg.fl {
      Fl::Optimistic => {
        let max = nodes.iter().map(|n| n.1).max().unwrap();
        if csize != max {
          bad("not-largest", format!("{} served from {} bytes, largest is {}", op.short(), csize, max));
        }
      }
      Fl::Pessimistic => {
        if let Some(s) = nodes.iter().filter(|n| n.1 < csize && n.1 >= need_max).map(|n| n.1).min() {
          bad("not-smallest-fit", format!("{} served from {} bytes although {} fits", op.short(), csize, s));
        }
      }
      Fl::None => {}
    }
    // list afterwards = list before - chosen (+ at most one remainder inside the chosen extent)
    let mut expect: Vec<(u32, u64)> = pre.nodes.iter().filter(|(o, _)| *o as u64 != coff).map(|(o, w)| (*o, *w >> 32)).collect();
    let mut got: Vec<(u32, u64)> = post.nodes.iter().map(|(o, w)| (*o, *w >> 32)).collect();
    expect.sort();
    got.sort();
    let extra: Vec<&(u32, u64)> = got.iter().filter(|g| !expect.contains(g)).collect();
    let missing: Vec<&(u32, u64)> = expect.iter().filter(|e| !got.contains(e)).collect();
    if !missing.is_empty() || extra.len() > 1 {
      bad("list-after-alloc", format!("{}: list {:?} -> {:?} (chosen {})", op.short(), nodes, got, coff));
    }
    if let Some((ro, rs)) = extra.first() {
      let (ro, rs) = (*ro as u64, *rs);
      if ro < (off + hcap) as u64 || ro + 8 + rs > coff + 8 + csize {
        bad("remainder-range", format!("{}: remainder [{},{}) not inside the unused tail of [{},{})", op.short(), ro, ro + 8 + rs, coff, coff + 8 + csize));
      }
      if rs < pre.min_segment_size as u64 || rs == 0 {
        bad("remainder-too-small", format!("{}: remainder of {} bytes below minimum segment size {}", op.short(), rs, pre.min_segment_size));
      }
    }
  }

  fn do_release(&mut self, op: Op, i: usize, or: u32, v: &mut Vec<Viol>) -> Obs {
    let a = self.a;
    let pre = a.snap(64);
    let refs_before = a.refs();
    if i < self.ckpt_slots {
      self.consumed = true;
    }
    let mut l = self.slots.remove(i);
    let (off, hcap, boff, bcap) = l.m;
    if or & O_SHADOW != 0 && !self.tainted && hcap > 0 && off + hcap <= a.capacity() && self.bytes(off, hcap).iter().any(|b| *b != l.pat) {
      v.push(Viol { flag: O_SHADOW, class: "live-bytes-changed".into(), msg: format!("bytes of [{},{}) changed before its release", off, off + hcap) });
    }
    let dc_before = self.dc.get();
    let mut h = l.h.take().unwrap();
    let detached = !matches!(op, Op::D(_));
    if detached {
      h.detach_();
    }
    drop(h);
    let mid = a.snap(64);
    let mut ret = Res::Unit;
    if matches!(op, Op::F(_)) {
      let released_anyway = mid.allocated != pre.allocated || mid.discarded != pre.discarded || mid.nodes != pre.nodes;
      if or & O_RELEASE != 0 && released_anyway {
        v.push(Viol { flag: O_RELEASE, class: "detached-drop-released".into(), msg: format!("dropping a detached handle changed the arena: {:?} -> {:?}", pre, mid) });
      }
      // never release a range twice: if the detached drop already gave it back, the explicit call is skipped
      if bcap > 0 && !released_anyway {
        ret = Res::Bool(unsafe { a.dealloc(boff as u32, bcap as u32) });
      }
    }
    let post = a.snap(64);
    let released = !matches!(op, Op::X(_)) && bcap > 0;
    if or & O_RELEASE != 0 {
      // exactly once over the life of the value: at the release of its handle, or (zero-sized values) already by `write`
      let dcd = self.dc.get() - dc_before + l.dropped_at_write;
      let want = if l.needs_drop && (!detached || l.dropped_at_write > 0) { 1 } else { 0 };
      if dcd != want {
        v.push(Viol { flag: O_RELEASE, class: "value-drop-count".into(), msg: format!("{}: value dropped {} time(s), expected {}", op.short(), dcd, want) });
      }
      let rd = refs_before.wrapping_sub(a.refs());
      if rd != l.refs_delta {
        v.push(Viol { flag: O_RELEASE, class: "refs-on-drop".into(), msg: format!("{}: refs() fell by {} (handle took {})", op.short(), rd, l.refs_delta) });
      }
      if !released && (post.allocated != pre.allocated || post.discarded != pre.discarded || post.nodes != pre.nodes) {
        v.push(Viol { flag: O_RELEASE, class: "detached-drop-released".into(), msg: format!("{}: nothing should be released but {:?} -> {:?}", op.short(), pre, post) });
      }
    }
    if released && !self.tainted {
      let top = boff + bcap == pre.allocated as usize;
      let newn: Vec<(u32, u64)> = post.nodes.iter().filter(|n| !pre.nodes.contains(n) && !pre.nodes.iter().any(|p| p.0 == n.0)).map(|(o, w)| (*o, *w >> 32)).collect();
      if top {
        if or & O_RELEASE != 0 && post.allocated as usize > pre.allocated as usize {
          v.push(Viol { flag: O_RELEASE, class: "top-release-grew".into(), msg: "cursor grew on release".into() });
        }
        // given back to the fresh space: the same bytes must not also be counted as discarded or listed
        if post.allocated < pre.allocated && (post.discarded != pre.discarded || post.nodes != pre.nodes) {
          for flag in [O_RELEASE, O_DISCARDED] {
            if or & flag != 0 {
              v.push(Viol { flag, class: "top-release-counted-twice".into(), msg: format!("{}: cursor {} -> {} and also discarded {} -> {}, nodes {:?} -> {:?}", op.short(), pre.allocated, post.allocated, pre.discarded, post.discarded, pre.nodes, post.nodes) });
            }
          }
        }
        if or & O_RELEASE != 0 && (post.allocated as usize) < boff && post.nodes == pre.nodes {
          v.push(Viol { flag: O_RELEASE, class: "released-too-much".into(), msg: format!("{}: cursor {} -> {} below the released extent [{},{})", op.short(), pre.allocated, post.allocated, boff, boff + bcap) });
        }
      } else {
        if or & O_RELEASE != 0 && post.allocated != pre.allocated {
          v.push(Viol { flag: O_RELEASE, class: "non-top-release-moved-cursor".into(), msg: format!("{}: cursor {} -> {} although [{},{}) is not on top", op.short(), pre.allocated, post.allocated, boff, boff + bcap) });
        }
        for (no, ns) in &newn {
          let (no, ext) = (*no as usize, 8 + *ns as usize);
          if or & O_RELEASE != 0 && (no < boff || no + ext > boff + bcap.max(hcap + off - boff)) {
            v.push(Viol { flag: O_RELEASE, class: "released-foreign-bytes".into(), msg: format!("{}: new segment [{},{}) is not inside the released extent [{},{})", op.short(), no, no + ext, boff, boff + bcap) });
          }
        }
        for (no, ns) in &newn {
          // a released range that cannot hold a node plus its data must be discarded, not listed
          let (no, ext) = (*no as usize, 8 + *ns as usize);
          if or & O_DISCARDED != 0 && (*ns == 0 || no < boff || no + ext > boff + bcap.max(hcap + off - boff)) {
            v.push(Viol { flag: O_DISCARDED, class: "too-small-release-became-segment".into(), msg: format!("{}: release of [{},{}) ({} bytes) created segment [{},{}) with {} data bytes", op.short(), boff, boff + bcap, bcap, no, no + ext, ns) });
          }
        }
        if or & O_RELEASE != 0 && newn.len() > 1 {
          v.push(Viol { flag: O_RELEASE, class: "released-twice".into(), msg: format!("{}: {} new segments", op.short(), newn.len()) });
        }
        // C20 / C10: a released range becomes a segment exactly when, behind the padding to the next multiple of 8
        // and the node word, it has at least one byte and at least the minimum segment size in force
        if or & (O_DISCARDED | O_FREELIST) != 0 && self.cfg.fl != Fl::None && bcap > 0 && boff > 0 {
          let pad = (8 - boff % 8) % 8;
          let m = self.min_in_force.unwrap_or(self.cfg.min_seg) as usize;
          let listed = pad + 8 < bcap && bcap - pad - 8 >= m;
          if listed != !newn.is_empty() {
            let flag = if or & O_DISCARDED != 0 { O_DISCARDED } else { O_FREELIST };
            v.push(Viol { flag, class: "release-listed-or-discarded".into(), msg: format!("{}: release of [{},{}) with minimum segment size {} in force: {} (discarded {} -> {}), expected {}", op.short(), boff, boff + bcap, m, if newn.is_empty() { "not listed" } else { "listed" }, pre.discarded, post.discarded, if listed { "a segment" } else { "discarded" }) });
          }
        }
        // "once": what one release adds to discarded() is at most what the handle owned (all of it when nothing is
        // listed, the node overhead when a segment is)
        if or & O_RELEASE != 0 && post.discarded.wrapping_sub(pre.discarded) as usize > bcap {
          v.push(Viol { flag: O_RELEASE, class: "released-more-than-owned".into(), msg: format!("{}: the release of [{},{}) ({} bytes) raised discarded() by {}", op.short(), boff, boff + bcap, bcap, post.discarded.wrapping_sub(pre.discarded)) });
        }
        if newn.is_empty() {
          // not reusable: accounted as discarded, never handed out again
          if or & O_DISCARDED != 0 && post.discarded != pre.discarded.wrapping_add(bcap as u32) {
            v.push(Viol { flag: O_DISCARDED, class: "release-not-accounted".into(), msg: format!("{}: release of {} bytes (no segment created) changed discarded {} -> {}", op.short(), bcap, pre.discarded, post.discarded) });
          }
          // C13: a release has an effect: cursor, list or the discarded counter
          if or & O_RELEASE != 0 && post.discarded == pre.discarded && post.allocated == pre.allocated && post.nodes == pre.nodes {
            v.push(Viol { flag: O_RELEASE, class: "release-without-effect".into(), msg: format!("{}: the release of [{},{}) changed neither the cursor nor the free list nor discarded()", op.short(), boff, boff + bcap) });
          }
          self.dead.push((boff, bcap));
        }
        if or & O_FREELIST != 0 && self.cfg.fl == Fl::None && !post.nodes.is_empty() {
          v.push(Viol { flag: O_FREELIST, class: "none-has-nodes".into(), msg: "Freelist::None created a segment".into() });
        }
      }
    }
    let _ = l;
    self.post(or, v, &pre, Some(&post), true);
    self.obs(ret)
  }
}

/// reference for `rewind`: position computed without overflow, clamped into [data_offset, cap]
pub fn ref_clamp(p: Pos, allocated: u32, data_offset: u32, cap: u32) -> u32 {
  let t: i128 = match p {
    Pos::Start(n) => n as i128,
    Pos::End(n) => cap as i128 - n as i128,
    Pos::Cur(d) => allocated as i128 + d as i128,
  };
  t.clamp(data_offset as i128, cap as i128) as u32
}

// ---------------------------------------------------------------------------------------------
// start states

#[derive(Clone, Copy, Debug, PartialEq, Eq, Hash, Serialize, Deserialize)]
pub enum Setup {
  Do(Op),
  /// move slot i to the pinned set (stays live, cannot be released by the history)
  Pin(u8),
}

#[derive(Clone, Debug, Serialize, Deserialize)]
pub struct Start {
  pub name: String,
  pub setup: Vec<Setup>,
}

impl Start {
  pub fn fresh() -> Self {
    Start { name: "fresh".into(), setup: vec![] }
  }
}

/// fragmented start states (sizes chosen for a data area of >= 176 bytes)
pub fn fragmented_starts() -> Vec<Start> {
  use Op::*;
  use Setup::*;
  use Sz::*;
  let mk = |name: &str, setup: Vec<Setup>| Start { name: name.into(), setup };
  vec![
    Start::fresh(),
    // main memory exhausted, two equal segments (32 data bytes each), live neighbours
    mk("full-2eq", vec![Do(B(N(40))), Do(B(N(40))), Do(B(N(40))), Do(B(R)), Do(D(0)), Do(D(1)), Pin(1), Pin(0)]),
    // segments of 16 and 48 data bytes, smaller released first
    mk("full-asc", vec![Do(B(N(24))), Do(B(N(16))), Do(B(N(56))), Do(B(R)), Do(D(0)), Do(D(1)), Pin(1), Pin(0)]),
    // larger released first
    mk("full-desc", vec![Do(B(N(56))), Do(B(N(16))), Do(B(N(24))), Do(B(R)), Do(D(0)), Do(D(1)), Pin(1), Pin(0)]),
    // one segment (40 data bytes) and room for exactly one 16-byte bump allocation
    mk("room16-1seg", vec![Do(B(N(48))), Do(B(N(16))), Do(B(Rm(16))), Do(D(0)), Pin(1), Pin(0)]),
    // three segments with a tie (24, 24, 40), main memory exhausted
    mk("full-3seg", vec![Do(B(N(32))), Do(B(N(8))), Pin(1), Do(B(N(32))), Do(B(N(8))), Pin(2), Do(B(N(48))), Do(B(R)), Pin(3), Do(D(0)), Do(D(0)), Do(D(0))]),
    // one segment (112 data bytes) that ends exactly at the cursor, 16 bytes of fresh space above it: what is left of
    // the segment after a split is the last thing below the cursor
    mk("seg-under-cursor", vec![Do(B(Rm(136))), Do(B(N(120))), Do(B(R)), Do(D(1)), Do(D(1)), Pin(0)]),
  ]
}

/// cursor at residue r (mod 16) past the data offset, memory otherwise fresh
pub fn residue_starts() -> Vec<Start> {
  (1..16u32)
    .map(|r| Start { name: format!("cursor+{r}"), setup: vec![Setup::Do(Op::B(Sz::N(r))), Setup::Pin(0)] })
    .collect()
}

// ---------------------------------------------------------------------------------------------
// exhaustive exploration

#[derive(Clone)]
pub struct Spec {
  pub alphabet: Vec<Op>,
  pub depth: usize,
  pub oracles: u32,
  /// which oracle flags belong to the property being decided (others are ignored)
  pub sync: bool,
  pub unsync: bool,
  /// compare per-step observations of the two flavours (C11)
  pub diff: bool,
  pub diff_prop: &'static str,
}

fn apply_start<A: Subject>(r: &mut Runner<A>, st: &Start, or: u32, v: &mut Vec<Viol>) {
  for su in &st.setup {
    match su {
      Setup::Do(op) => {
        let _ = r.step(*op, or, v);
      }
      Setup::Pin(p) => r.pin(*p as usize),
    }
  }
}

pub struct WordOut {
  /// number of steps executed (may stop early at a disabled op or violation)
  pub executed: usize,
  pub disabled_at: Option<usize>,
  pub obs_sync: Vec<Obs>,
  pub obs_unsync: Vec<Obs>,
  pub viol: Vec<(usize, &'static str, Viol)>,
  pub slow_paths: u32,
}

/// Saved state of a runner: image, header, and the oracle bookkeeping.
pub struct Ckpt {
  image: Vec<u8>,
  header: Vec<u8>,
  nslots: usize,
  npinned: usize,
  dead: Vec<(usize, usize)>,
  tainted: bool,
  patn: u8,
  slow_paths: u32,
  first_alloc_done: bool,
  dc: u32,
  min_in_force: Option<u32>,
  /// state an arena keeps outside image and header: must never change
  hidden: (usize, usize, usize, usize),
}

impl<A: Subject> Runner<A> {
  fn hidden(&self) -> (usize, usize, usize, usize) {
    let rg = self.a.ranges();
    (self.a.data_offset(), self.a.capacity(), rg.header, rg.base)
  }

  pub fn checkpoint(&self) -> Ckpt {
    let rg = self.a.ranges();
    Ckpt {
      image: self.bytes(0, rg.cap).to_vec(),
      header: unsafe { std::slice::from_raw_parts(rg.header as *const u8, rg.header_len) }.to_vec(),
      nslots: self.slots.len(),
      npinned: self.pinned.len(),
      dead: self.dead.clone(),
      tainted: self.tainted,
      patn: self.patn,
      slow_paths: self.slow_paths,
      first_alloc_done: self.first_alloc_done,
      dc: self.dc.get(),
      min_in_force: self.min_in_force,
      hidden: self.hidden(),
    }
  }

  /// Put image, header and bookkeeping back.  Returns false when handles that existed at the
  /// checkpoint were consumed since (the caller must then rebuild the start state).
  ///
  /// Trusted-base assumption (validated by `Pair::rebuild`): the mutable state of an arena is its
  /// byte image, its header and its reference count.
  pub fn restore(&mut self, c: &Ckpt) -> bool {
    let intact = self.slots.len() >= c.nslots && self.pinned.len() >= c.npinned && !self.consumed && self.hidden() == c.hidden;
    for l in self.slots.iter_mut().skip(if intact { c.nslots } else { 0 }) {
      if let Some(h) = l.h.as_mut() {
        h.detach_();
      }
    }
    for l in self.pinned.iter_mut().skip(if intact { c.npinned } else { 0 }) {
      if let Some(h) = l.h.as_mut() {
        h.detach_();
      }
    }
    self.slots.truncate(if intact { c.nslots } else { 0 });
    self.pinned.truncate(if intact { c.npinned } else { 0 });
    let rg = self.a.ranges();
    unsafe {
      std::ptr::copy_nonoverlapping(c.image.as_ptr(), self.a.raw_mut_ptr(), rg.cap.min(c.image.len()));
      std::ptr::copy_nonoverlapping(c.header.as_ptr(), rg.header as *mut u8, rg.header_len);
    }
    self.dead = c.dead.clone();
    self.tainted = c.tainted;
    self.patn = c.patn;
    self.slow_paths = c.slow_paths;
    self.first_alloc_done = c.first_alloc_done;
    self.dc.set(c.dc);
    self.min_in_force = c.min_in_force;
    self.consumed = false;
    self.ckpt_slots = if intact { c.nslots } else { 0 };
    intact
  }
}

/// One arena of each requested flavour, kept alive across histories.
pub struct Pair {
  pub rs: Option<Runner<rarena_allocator::sync::Arena>>,
  pub ru: Option<Runner<rarena_allocator::unsync::Arena>>,
  pristine: (Option<Ckpt>, Option<Ckpt>),
  start: (Option<Ckpt>, Option<Ckpt>),
  pub start_viol: Vec<Viol>,
  pub rebuilds: u64,
  /// how often the image restore did not reproduce the start state and a fresh arena was built
  pub fresh_rebuilds: u64,
  cfg: Cfg,
}

impl Pair {
  pub fn new(cfg: &Cfg, st: &Start, spec: &Spec) -> Pair {
    let rs = if spec.sync { Some(Runner::<rarena_allocator::sync::Arena>::new(cfg).expect("build sync arena")) } else { None };
    let ru = if spec.unsync { Some(Runner::<rarena_allocator::unsync::Arena>::new(cfg).expect("build unsync arena")) } else { None };
    let mut p = Pair { pristine: (rs.as_ref().map(|r| r.checkpoint()), ru.as_ref().map(|r| r.checkpoint())), rs, ru, start: (None, None), start_viol: vec![], rebuilds: 0, fresh_rebuilds: 0, cfg: *cfg };
    p.rebuild(st, spec, true);
    p
  }

  /// pristine image + replay of the start state; the resulting image must equal the one recorded first
  fn rebuild(&mut self, st: &Start, spec: &Spec, first: bool) {
    let mut sv = vec![];
    if let Some(r) = self.rs.as_mut() {
      r.consumed = true;
      r.restore(self.pristine.0.as_ref().unwrap());
      apply_start(r, st, if first { spec.oracles } else { 0 }, &mut sv);
      let mut c = r.checkpoint();
      r.ckpt_slots = c.nslots;
      if let Some(old) = &self.start.0 {
        if !(old.image == c.image && old.header == c.header && old.hidden == c.hidden) {
          // the previous history changed state that lives outside image + header (only a modified
          // subject does that): fall back to a freshly built arena
          let mut fresh = Runner::<rarena_allocator::sync::Arena>::new(&self.cfg).expect("rebuild sync arena");
          self.pristine.0 = Some(fresh.checkpoint());
          apply_start(&mut fresh, st, 0, &mut sv);
          c = fresh.checkpoint();
          fresh.ckpt_slots = c.nslots;
          *r = fresh;
          self.fresh_rebuilds += 1;
        }
      }
      self.start.0 = Some(c);
    }
    if let Some(r) = self.ru.as_mut() {
      r.consumed = true;
      r.restore(self.pristine.1.as_ref().unwrap());
      apply_start(r, st, if first { spec.oracles } else { 0 }, &mut sv);
      let mut c = r.checkpoint();
      r.ckpt_slots = c.nslots;
      if let Some(old) = &self.start.1 {
        if !(old.image == c.image && old.header == c.header && old.hidden == c.hidden) {
          let mut fresh = Runner::<rarena_allocator::unsync::Arena>::new(&self.cfg).expect("rebuild unsync arena");
          self.pristine.1 = Some(fresh.checkpoint());
          apply_start(&mut fresh, st, 0, &mut sv);
          c = fresh.checkpoint();
          fresh.ckpt_slots = c.nslots;
          *r = fresh;
          self.fresh_rebuilds += 1;
        }
      }
      self.start.1 = Some(c);
    }
    if first {
      self.start_viol = sv;
    }
    self.rebuilds += 1;
  }

  pub fn reset(&mut self, st: &Start, spec: &Spec) {
    let mut ok = true;
    if let Some(r) = self.rs.as_mut() {
      ok &= r.restore(self.start.0.as_ref().unwrap());
    }
    if let Some(r) = self.ru.as_mut() {
      ok &= r.restore(self.start.1.as_ref().unwrap());
    }
    if !ok {
      self.rebuild(st, spec, false);
    }
  }

  /// Run `word` from the start state, checking oracles on steps >= `from`.
  pub fn run_word(&mut self, st: &Start, word: &[Op], spec: &Spec, from: usize) -> WordOut {
    let mut out = WordOut { executed: 0, disabled_at: None, obs_sync: vec![], obs_unsync: vec![], viol: vec![], slow_paths: 0 };
    for x in self.start_viol.iter() {
      out.viol.push((0, "start", x.clone()));
    }
    let (rs, ru) = (&mut self.rs, &mut self.ru);
    for (k, op) in word.iter().enumerate() {
      let or = if k >= from { spec.oracles } else { 0 };
      let mut v1 = vec![];
      let mut v2 = vec![];
      let o1 = rs.as_mut().map(|r| r.step(*op, or, &mut v1));
      let o2 = ru.as_mut().map(|r| r.step(*op, or, &mut v2));
      let dis1 = matches!(o1, Some(None));
      let dis2 = matches!(o2, Some(None));
      if dis1 || dis2 {
        if spec.diff && dis1 != dis2 && rs.is_some() && ru.is_some() {
          out.viol.push((k, "diff", Viol { flag: 0, class: "enabledness".into(), msg: format!("step {} {} enabled on one flavour only", k, op.short()) }));
        }
        out.disabled_at = Some(k);
        break;
      }
      for x in v1 {
        out.viol.push((k, "sync", x));
      }
      for x in v2 {
        out.viol.push((k, "unsync", x));
      }
      if let (Some(Some(a)), Some(Some(b))) = (&o1, &o2) {
        if spec.diff && k >= from && a != b {
          out.viol.push((k, "diff", Viol { flag: 0, class: format!("obs-differ:{}", op_class(op)), msg: format!("step {} {}: sync {:?} vs unsync {:?}", k, op.short(), a, b) }));
        }
      }
      if let Some(Some(a)) = o1 {
        out.obs_sync.push(a);
      }
      if let Some(Some(b)) = o2 {
        out.obs_unsync.push(b);
      }
      out.executed = k + 1;
      if !out.viol.is_empty() {
        break;
      }
    }
    out.slow_paths = rs.as_ref().map(|r| r.slow_paths).unwrap_or(0) + ru.as_ref().map(|r| r.slow_paths).unwrap_or(0);
    self.reset(st, spec);
    out
  }
}

/// Run `word` on freshly built arenas (used by replay and by the restore self-check).
pub fn run_word(cfg: &Cfg, st: &Start, word: &[Op], spec: &Spec, from: usize) -> WordOut {
  let mut p = Pair::new(cfg, st, spec);
  p.run_word(st, word, spec, from)
}

pub fn op_class(op: &Op) -> &'static str {
  match op {
    Op::B(_) => "B",
    Op::BO(_) => "BO",
    Op::AB(..) => "AB",
    Op::ABO(..) => "ABO",
    Op::T(_) => "T",
    Op::TO(_) => "TO",
    Op::D(_) => "D",
    Op::X(_) => "X",
    Op::F(_) => "F",
    Op::Disc => "Disc",
    Op::SetMin(_) => "SetMin",
    Op::IncDisc(_) => "IncDisc",
    Op::Rewind(_) => "Rewind",
    Op::Clear => "Clear",
  }
}

/// which property a violation belongs to; `None` = not for the property being decided
fn viol_prop(spec: &Spec, v: &Viol) -> &'static str {
  if v.flag == 0 {
    spec.diff_prop
  } else {
    prop_of(v.flag)
  }
}

/// Enumerate every word of length `depth` over the alphabet (prefix-closed: a disabled or violating
/// step prunes the subtree), for every cfg x start; all work split by (cfg, start, first symbol).
pub fn explore(run: &Run, spec: &Spec, cfgs: &[Cfg], starts: &[Start], engine_tag: &str) {
  let mut items = vec![];
  for (ci, _) in cfgs.iter().enumerate() {
    for (si, _) in starts.iter().enumerate() {
      for (ai, _) in spec.alphabet.iter().enumerate() {
        items.push((ci, si, ai));
      }
    }
  }
  let nsym = spec.alphabet.len();
  par_for_each(&items, |_, &(ci, si, ai)| {
    if run.stopped() {
      return;
    }
    let cfg = &cfgs[ci];
    let st = &starts[si];
    let d = spec.depth;
    let mut idx = vec![0usize; d];
    idx[0] = ai;
    let mut from = 0usize; // first position that differs from the previous word
    crate::crashguard::set_case(crate::crashguard::head_of(&json!({"engine": "hist", "tag": engine_tag, "cfg": cfg, "start": st, "alphabet": spec.alphabet, "oracles": spec.oracles, "sync": spec.sync, "unsync": spec.unsync, "diff": spec.diff})));
    let mut pair = Pair::new(cfg, st, spec);
    let mut nwords = 0u64;
    loop {
      let word: Vec<Op> = idx.iter().map(|i| spec.alphabet[*i]).collect();
      crate::crashguard::set_idx(&idx);
      let out = pair.run_word(st, &word, spec, from);
      nwords += 1;
      if nwords == 1 || nwords % 4096 == 0 {
        // restore self-check: the same history on freshly built arenas must observe the same
        let fresh = run_word(cfg, st, &word, spec, from);
        assert!(fresh.obs_sync == out.obs_sync && fresh.obs_unsync == out.obs_unsync && fresh.disabled_at == out.disabled_at, "machinery: image-restore and fresh arena disagree on {}", word_str(&word));
        run.add_num("restore_selfchecks", 1);
      }
      let newsteps = out.executed.saturating_sub(from);
      run.trans(newsteps as u64);
      // states: one per new prefix, keyed by the observations so far (sync side preferred)
      let obs = if spec.sync { &out.obs_sync } else { &out.obs_unsync };
      for k in from..out.executed {
        run.states.insert(hash_of(&(ci, si, &obs[k], k)));
      }
      // cut position: first disabled / violating step
      let cut = if !out.viol.is_empty() { out.viol.iter().map(|x| x.0).min() } else { out.disabled_at };
      if out.disabled_at.is_none() || !out.viol.is_empty() {
        // a complete (or violating) history
        run.eval(1);
        crate::crashguard::EVALS.fetch_add(1, std::sync::atomic::Ordering::Relaxed);
      }
      if out.slow_paths > 0 && out.disabled_at.is_none() {
        run.nontrivial.insert(hash_of(&(ci, si, obs)));
      }
      if out.disabled_at.is_none() && out.viol.is_empty() && out.slow_paths > 0 {
        run.sample(|| json!({"engine": engine_tag, "cfg": cfg, "start": st.name, "history": word_str(&word), "final": format!("{:?}", obs.last())}));
      }
      for (k, fl, v) in &out.viol {
        let p = viol_prop(spec, v);
        run.violation(Violation {
          property: p.to_string(),
          signature: format!("{}:{}:{}", engine_tag, v.class, if *fl == "diff" { "diff" } else { op_class(&word[(*k).min(word.len() - 1)]) }),
          message: format!("[{} {:?} start={} history={}] step {}: {}", fl, cfg, st.name, word_str(&word[..(*k + 1).min(word.len())]), k, v.msg),
          replay: json!({"engine": "hist", "tag": engine_tag, "cfg": cfg, "start": st, "word": word[..(*k + 1).min(word.len())].to_vec(), "oracles": spec.oracles, "sync": spec.sync, "unsync": spec.unsync, "diff": spec.diff}),
        });
      }
      // advance odometer
      let mut k = match cut {
        Some(c) => c,
        None => d - 1,
      };
      // positions after k are reset
      for j in k + 1..d {
        idx[j] = 0;
      }
      loop {
        if k == 0 {
          if pair.fresh_rebuilds > 0 {
            run.add_num("restore_mismatch_fresh_rebuilds", pair.fresh_rebuilds);
          }
          return; // first symbol is fixed per work item
        }
        idx[k] += 1;
        if idx[k] < nsym {
          break;
        }
        idx[k] = 0;
        k -= 1;
      }
      from = k;
      if run.stopped() {
        if pair.fresh_rebuilds > 0 {
          run.add_num("restore_mismatch_fresh_rebuilds", pair.fresh_rebuilds);
        }
        return;
      }
    }
  });
}

/// Re-run one recorded history with all requested oracles and print every step.
pub fn replay(case: &Value) -> i32 {
  let cfg: Cfg = serde_json::from_value(case["cfg"].clone()).expect("cfg");
  let st: Start = serde_json::from_value(case["start"].clone()).expect("start");
  let word: Vec<Op> = if case.get("word").is_some() {
    serde_json::from_value(case["word"].clone()).expect("word")
  } else {
    let al: Vec<Op> = serde_json::from_value(case["alphabet"].clone()).expect("alphabet");
    case["idx"].as_array().expect("idx").iter().map(|i| al[i.as_u64().unwrap() as usize]).collect()
  };
  let spec = Spec {
    alphabet: vec![],
    depth: word.len(),
    oracles: case["oracles"].as_u64().unwrap_or(O_ALL as u64) as u32,
    sync: case["sync"].as_bool().unwrap_or(true),
    unsync: case["unsync"].as_bool().unwrap_or(true),
    diff: case["diff"].as_bool().unwrap_or(false),
    diff_prop: "C11",
  };
  println!("replay hist: cfg={:?} start={} word={}", cfg, st.name, word_str(&word));
  let out = run_word(&cfg, &st, &word, &spec, 0);
  for (k, o) in out.obs_sync.iter().enumerate() {
    println!("  sync   step {} {} -> {:?}", k, word[k].short(), o);
  }
  for (k, o) in out.obs_unsync.iter().enumerate() {
    println!("  unsync step {} {} -> {:?}", k, word[k].short(), o);
  }
  for (k, fl, v) in &out.viol {
    println!("  !! step {} [{}] {} {}: {}", k, fl, if v.flag == 0 { "diff" } else { prop_of(v.flag) }, v.class, v.msg);
  }
  if out.viol.is_empty() {
    println!("  no violation on replay");
    0
  } else {
    1
  }
}

