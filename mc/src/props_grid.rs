//! Input-grid properties: C15 (arena-level readers), C19 (checksum), C16 (layout contract),
//! C17 (rewind / clear), C18 (truncate).  Every grid is enumerated completely.
use crate::hist::*;
use crate::report::{hash_of, par_for_each, Run, Tier, Violation};
use crate::subject::*;
use rarena_allocator::checksum::{BuildChecksumer, Checksumer, Crc32};
use rarena_allocator::{sync, unsync, Allocator, ArenaPosition, Buffer, Error, Options};
use serde_json::json;

fn viol(run: &Run, prop: &str, class: &str, msg: String, case: serde_json::Value) {
  run.violation(Violation { property: prop.into(), signature: format!("{}:{}", prop, class), message: msg, replay: case });
}

// ---------------------------------------------------------------------------------------------
// C15

fn decode(bytes: &[u8], be: bool) -> u128 {
  let mut v: u128 = 0;
  if be {
    for b in bytes {
      v = (v << 8) | *b as u128;
    }
  } else {
    for b in bytes.iter().rev() {
      v = (v << 8) | *b as u128;
    }
  }
  v
}

macro_rules! fixed_readers {
  ($a:expr, $off:expr, $( ($name:ident, $ty:ty, $be:expr) ),*) => {
    vec![ $( (stringify!($name), std::mem::size_of::<$ty>(), $be, std::panic::catch_unwind(std::panic::AssertUnwindSafe(|| $a.$name($off).map(|x| x as $ty as u128 & (u128::MAX >> (128 - 8 * std::mem::size_of::<$ty>()))).map_err(|e| matches!(e, Error::OutOfBounds { .. }))))) ),* ]
  };
}

macro_rules! varint_readers {
  ($a:expr, $off:expr, $( ($name:ident, $ty:ty) ),*) => {
    vec![ $( (stringify!($name), std::panic::catch_unwind(std::panic::AssertUnwindSafe(|| $a.$name($off).map(|(n, x)| (n, x as i128)).map_err(|e| matches!(e, Error::OutOfBounds { .. }))))) ),* ]
  };
}

fn c15_arena<A: Subject>(backend: Backend, allocated: u32, poison: u8, path: Option<&std::path::PathBuf>) -> A {
  c15_arena_u::<A>(backend, true, allocated, poison, path)
}

fn c15_arena_u<A: Subject>(backend: Backend, unify: bool, allocated: u32, poison: u8, path: Option<&std::path::PathBuf>) -> A {
  c15_arena_c::<A>(backend, unify, allocated, poison, path, 256)
}

fn c15_arena_c<A: Subject>(backend: Backend, unify: bool, allocated: u32, poison: u8, path: Option<&std::path::PathBuf>, cap: u32) -> A {
  let cfg = Cfg::new(Fl::Optimistic, backend, unify, cap);
  let a: A = build::<A>(&cfg, path).expect("arena");
  // fill the whole data area with byte-distinct content through one allocation, then rewind
  let mut b = a.alloc_bytes(a.remaining() as u32).unwrap();
  unsafe { b.detach() };
  let (off, cap, ..) = meta_of(&b);
  drop(b);
  let p = a.raw_mut_ptr();
  for i in 0..cap {
    let o = off + i;
    // varint-friendly content: continuation bits set on most bytes, cleared on every 5th
    let v = if o as u32 >= allocated { poison } else if o % 5 == 4 { (o as u8) & 0x7f } else { 0x80 | (o as u8) };
    unsafe { *p.add(o) = v };
  }
  unsafe { a.rewind(ArenaPosition::Start(allocated)) };
  a
}

fn c15_flavour<A: Subject>(run: &Run, backend: Backend, thorough: bool) {
  let flav = A::FLAVOUR;
  let fills: Vec<u32> = if thorough { (32..=256).collect() } else { vec![32, 33, 40, 47, 100, 256] };
  let mut offsets: Vec<usize> = (0..=256 + 16).collect();
  offsets.extend((0..=16).map(|k| usize::MAX - k));
  offsets.extend([1usize << 32, (1usize << 32) - 1, 1usize << 63, (1usize << 63) - 1, (1usize << 63) + 5, isize::MAX as usize - 3]);
  for fill in fills {
    let pa = if backend == Backend::File { Some(fresh_path("c15a")) } else { None };
    let pb = if backend == Backend::File { Some(fresh_path("c15b")) } else { None };
    let a: A = c15_arena::<A>(backend, fill, 0xFF, pa.as_ref());
    let b: A = c15_arena::<A>(backend, fill, 0x00, pb.as_ref());
    let al = a.allocated();
    let case = |off: usize, m: &str| json!({"engine": "c15", "flavour": flav, "backend": backend, "allocated": fill, "offset": off.to_string(), "reader": m});
    if al != fill as usize || a.allocated_memory().len() != al || a.data().len() != al - a.data_offset() || a.memory().len() != a.capacity() || a.capacity() != 256 {
      viol(run, "C15", "slice-lengths", format!("[{flav} {backend:?}] allocated {} : allocated_memory {} data {} memory {} capacity {}", al, a.allocated_memory().len(), a.data().len(), a.memory().len(), a.capacity()), case(0, "slices"));
    }
    let mem: Vec<u8> = a.memory().to_vec();
    for &off in &offsets {
      crate::crashguard::set_idx(&[fill as usize, off & 0xffff_ffff, off >> 32]);
      let rs = fixed_readers!(a, off, (get_u8, u8, true), (get_i8, i8, true), (get_u16_be, u16, true), (get_u16_le, u16, false), (get_u32_be, u32, true), (get_u32_le, u32, false), (get_u64_be, u64, true), (get_u64_le, u64, false), (get_u128_be, u128, true), (get_u128_le, u128, false), (get_i16_be, i16, true), (get_i16_le, i16, false), (get_i32_be, i32, true), (get_i32_le, i32, false), (get_i64_be, i64, true), (get_i64_le, i64, false), (get_i128_be, i128, true), (get_i128_le, i128, false));
      for (name, size, be, r) in rs {
        run.eval(1);
        let inb = off.checked_add(size).map(|e| e <= al).unwrap_or(false);
        match r {
          Err(_) => viol(run, "C15", &format!("reader-panicked:{}", if off > 1 << 31 { "huge-offset" } else { "offset" }), format!("[{flav} {backend:?} allocated {al}] {name}({off}) panicked"), case(off, name)),
          Ok(Ok(v)) => {
            if !inb {
              viol(run, "C15", &format!("read-beyond-allocated:{}", if off > 1 << 31 { "huge-offset" } else { "offset" }), format!("[{flav} {backend:?} allocated {al}] {name}({off}) returned Ok({v:#x}) although offset+{size} > allocated"), case(off, name));
            } else if v != decode(&mem[off..off + size], be) {
              viol(run, "C15", "wrong-value", format!("[{flav} {backend:?} allocated {al}] {name}({off}) = {v:#x}, bytes {:x?}", &mem[off..off + size]), case(off, name));
            }
          }
          Ok(Err(oob)) => {
            if inb || !oob {
              viol(run, "C15", "refused-in-bounds", format!("[{flav} {backend:?} allocated {al}] {name}({off}) failed (OutOfBounds={oob}) although offset+{size} <= allocated"), case(off, name));
            }
          }
        }
      }
      let va = varint_readers!(a, off, (get_u16_varint, u16), (get_u32_varint, u32), (get_u64_varint, u64), (get_u128_varint, u128), (get_i16_varint, i16), (get_i32_varint, i32), (get_i64_varint, i64), (get_i128_varint, i128));
      let vb = varint_readers!(b, off, (get_u16_varint, u16), (get_u32_varint, u32), (get_u64_varint, u64), (get_u128_varint, u128), (get_i16_varint, i16), (get_i32_varint, i32), (get_i64_varint, i64), (get_i128_varint, i128));
      for ((name, ra), (_, rb)) in va.into_iter().zip(vb.into_iter()) {
        run.eval(1);
        match (&ra, &rb) {
          (Err(_), _) | (_, Err(_)) => viol(run, "C15", "reader-panicked:varint", format!("[{flav} {backend:?} allocated {al}] {name}({off}) panicked"), case(off, name)),
          (Ok(x), Ok(y)) => {
            if x != y {
              viol(run, "C15", "varint-depends-on-bytes-above-allocated", format!("[{flav} {backend:?} allocated {al}] {name}({off}): {:?} with 0xFF above the cursor, {:?} with 0x00", x, y), case(off, name));
            }
            match x {
              Ok((n, _)) => {
                if off >= al || off + n > al {
                  viol(run, "C15", "varint-beyond-allocated", format!("[{flav} {backend:?} allocated {al}] {name}({off}) consumed {n} bytes"), case(off, name));
                }
              }
              Err(oob) => {
                if (off >= al) != *oob {
                  viol(run, "C15", "varint-error-kind", format!("[{flav} {backend:?} allocated {al}] {name}({off}) error OutOfBounds={oob}"), case(off, name));
                }
              }
            }
          }
        }
      }
    }
    run.states.insert(hash_of(&(flav, backend, fill)));
    run.nontrivial.insert(hash_of(&(flav, backend, fill)));
    drop(a);
    drop(b);
    for p in [pa, pb].into_iter().flatten() {
      let _ = std::fs::remove_file(p);
    }
  }
}

/// slice lengths and reader bounds in states reached through clear() and through rewinds beyond the ends
fn c15_states<A: Subject>(run: &Run, backend: Backend, unify: bool) {
  c15_states_cap::<A>(run, backend, unify, 256);
  // a capacity that is a multiple of no alignment
  c15_states_cap::<A>(run, backend, unify, 253);
}

fn c15_states_cap<A: Subject>(run: &Run, backend: Backend, unify: bool, capacity: u32) {
  let flav = A::FLAVOUR;
  let mut hows: Vec<String> = ["clear", "clear+alloc", "rewind-beyond-capacity", "rewind-below-data-offset", "rewind-current-to-1", "rewind-current-to-dof-1", "rewind-current-beyond", "fresh", "full"].iter().map(|s| s.to_string()).collect();
  // allocation calls that just fit / just do not fit into what is left (padded requests at every residue)
  for room in 1..=17u32 {
    for call in ["ab", "t", "b"] {
      hows.push(format!("room-{}-{}", room, call));
    }
  }
  for how in hows.iter().map(|s| s.as_str()) {
    let p = if backend == Backend::File { Some(fresh_path("c15s")) } else { None };
    let a: A = c15_arena_c::<A>(backend, unify, 100, 0xFF, p.as_ref(), capacity);
    let case = json!({"engine": "c15", "flavour": flav, "backend": backend, "unify": unify, "state": how, "capacity": capacity});
    crate::crashguard::set_case(crate::crashguard::head_of(&case));
    let r = std::panic::catch_unwind(std::panic::AssertUnwindSafe(|| {
      match how {
        "clear" => unsafe { a.clear().unwrap() },
        "clear+alloc" => {
          unsafe { a.clear().unwrap() };
          let mut b = a.alloc_bytes(9).unwrap();
          unsafe { b.detach() };
        }
        "rewind-beyond-capacity" => unsafe { a.rewind(ArenaPosition::Start(256 + 50)) },
        // relative rewinds that land just above 0 / just below the data offset / beyond the end
        "rewind-current-to-1" => unsafe { a.rewind(ArenaPosition::Current(1 - a.allocated() as i64)) },
        "rewind-current-to-dof-1" => unsafe { a.rewind(ArenaPosition::Current(a.data_offset() as i64 - 1 - a.allocated() as i64)) },
        "rewind-current-beyond" => unsafe { a.rewind(ArenaPosition::Current(1 << 20)) },
        "rewind-below-data-offset" => unsafe { a.rewind(ArenaPosition::Start(0)) },
        "full" => unsafe { a.rewind(ArenaPosition::End(0)) },
        h if h.starts_with("room-") => {
          let mut it = h.split('-').skip(1);
          let room: u32 = it.next().unwrap().parse().unwrap();
          unsafe { a.rewind(ArenaPosition::End(room)) };
          // whether the call succeeds or not, the cursor must stay within the capacity
          match it.next().unwrap() {
            "ab" => {
              for extra in [room.saturating_sub(8), room.saturating_sub(9)] {
                if let Ok(mut b) = a.alloc_aligned_bytes::<u64>(extra) {
                  unsafe { b.detach() };
                }
              }
            }
            "t" => {
              if let Ok(mut b) = unsafe { a.alloc::<u64>() } {
                unsafe { b.detach() };
              }
            }
            _ => {
              if let Ok(mut b) = a.alloc_bytes(room) {
                unsafe { b.detach() };
              }
            }
          }
        }
        _ => {}
      }
      let (al, cap, dof) = (a.allocated(), a.capacity(), a.data_offset());
      let mut bad = vec![];
      if al > cap || al < dof {
        bad.push(format!("allocated() = {} outside [data_offset {}, capacity {}]", al, dof, cap));
      }
      let cfg = Cfg::new(Fl::Optimistic, backend, unify, capacity);
      if dof != cfg.data_offset() {
        bad.push(format!("data_offset() = {}, layout says {}", dof, cfg.data_offset()));
      }
      if a.allocated_memory().len() != al || a.memory().len() != cap || a.data().len() != al.wrapping_sub(dof) {
        bad.push(format!("allocated_memory {} data {} memory {} for allocated {} data_offset {} capacity {}", a.allocated_memory().len(), a.data().len(), a.memory().len(), al, dof, cap));
      }
      for off in [al.saturating_sub(1), al, cap.saturating_sub(1), cap, cap + 1] {
        let want_ok = off < al;
        if a.get_u8(off).is_ok() != want_ok {
          bad.push(format!("get_u8({}) ok={} with allocated {}", off, !want_ok, al));
        }
        if a.get_u16_varint(off).map(|_| ()).map_err(|e| matches!(e, Error::OutOfBounds { .. })) == Err(true) && want_ok {
          bad.push(format!("get_u16_varint({}) OutOfBounds with allocated {}", off, al));
        }
      }
      bad
    }));
    run.eval(1);
    match r {
      Err(_) => viol(run, "C15", &format!("panic-in-state:{}", how), format!("[{flav} {backend:?} unify={unify}] slices / readers panicked in state '{how}'"), case),
      Ok(bad) => {
        for m in bad {
          let class: String = if how.starts_with("room-") { format!("after-{}", how.rsplit('-').next().unwrap()) } else { how.to_string() };
          viol(run, "C15", &format!("slice-lengths:{}", class), format!("[{flav} {backend:?} unify={unify} state '{how}'] {m}"), case.clone());
        }
      }
    }
    run.states.insert(hash_of(&(flav, backend, unify, how)));
    drop(a);
    if let Some(p) = p {
      let _ = std::fs::remove_file(p);
    }
  }
  crate::crashguard::clear_case();
}

/// arenas of every capacity around the size of their own prefix: whatever construction accepts must satisfy
/// the slice / reader bounds
fn c15_tiny<A: Subject>(run: &Run, backend: Backend, unify: bool) {
  let flav = A::FLAVOUR;
  for reserved in [0u32, 5, 8] {
    for cap in 0..=56u32 {
      let mut cfg = Cfg::new(Fl::Optimistic, backend, unify, cap);
      cfg.reserved = reserved;
      let p = if backend == Backend::File { Some(fresh_path("c15t")) } else { None };
      let case = json!({"engine": "c15", "flavour": flav, "backend": backend, "unify": unify, "reserved": reserved, "capacity": cap, "part": "tiny"});
      crate::crashguard::set_case(crate::crashguard::head_of(&case));
      let r = std::panic::catch_unwind(std::panic::AssertUnwindSafe(|| {
        let Ok(a) = build::<A>(&cfg, p.as_ref()) else { return vec![] };
        let (al, c, dof) = (a.allocated(), a.capacity(), a.data_offset());
        let mut bad = vec![];
        if al > c || al < dof.min(c) {
          bad.push(format!("allocated() = {} with data_offset {} and capacity {}", al, dof, c));
        }
        if a.allocated_memory().len() != al || a.memory().len() != c || a.allocated_memory().len() > a.memory().len() {
          bad.push(format!("allocated_memory {} memory {} for allocated {} capacity {}", a.allocated_memory().len(), a.memory().len(), al, c));
        }
        for off in [c.saturating_sub(1), c, c + 1, al] {
          if off >= al.min(c) && a.get_u8(off).is_ok() {
            bad.push(format!("get_u8({}) returned Ok with allocated {} capacity {}", off, al, c));
          }
        }
        bad
      }));
      run.eval(1);
      match r {
        Err(_) => viol(run, "C15", "panic-in-state:tiny", format!("[{flav} {backend:?} unify={unify} reserved {reserved} capacity {cap}] construction or accessors panicked"), case),
        Ok(bad) => {
          for m in bad {
            viol(run, "C15", "slice-lengths:tiny-capacity", format!("[{flav} {backend:?} unify={unify} reserved {reserved} capacity {cap}] {m}"), case.clone());
          }
        }
      }
      if let Some(p) = p {
        let _ = std::fs::remove_file(p);
      }
    }
  }
  crate::crashguard::clear_case();
}

/// reference encoder: LEB128, 7 value bits per byte, least significant group first
fn leb128(mut v: u128) -> Vec<u8> {
  let mut out = vec![];
  loop {
    let b = (v & 0x7f) as u8;
    v >>= 7;
    if v == 0 {
      out.push(b);
      return out;
    }
    out.push(b | 0x80);
  }
}

macro_rules! varint_value_cases {
  ($a:expr, $al:expr, $bad:expr, $evals:expr, $( ($name:ident, $ty:ty, $uty:ty, $signed:expr) ),*) => {
    $( {
      let bits = 8 * std::mem::size_of::<$ty>() as u32;
      // boundary values of every encoded length, in the encoded (zigzag for signed) domain
      let mut enc: Vec<u128> = vec![0, 1];
      let mut k = 7;
      while k < bits {
        enc.push((1u128 << k) - 1);
        enc.push(1u128 << k);
        k += 7;
      }
      enc.push(<$uty>::MAX as u128);
      enc.push((<$uty>::MAX >> 1) as u128);
      enc.push((<$uty>::MAX as u128) - 1);
      for e in enc {
        let bytes = leb128(e);
        let want: $ty = if $signed { let u = e as $uty; ((u >> 1) as $ty) ^ (((u & 1) as $ty).wrapping_neg()) } else { e as $uty as $ty };
        // (a) in the middle of the allocated prefix, (b) ending exactly at allocated(), (c) cut by one byte
        for (place, off) in [("middle", 40usize), ("ending-at-allocated", $al - bytes.len()), ("cut-by-cursor", $al - bytes.len() + 1)] {
          if place == "cut-by-cursor" && bytes.len() == 1 {
            continue;
          }
          let p = $a.raw_mut_ptr();
          // only the part below the cursor is written (what lies above keeps the poison pattern)
          let wl = bytes.len().min($al - off);
          let saved: Vec<u8> = $a.memory()[off..off + wl].to_vec();
          unsafe { std::ptr::copy_nonoverlapping(bytes.as_ptr(), p.add(off), wl) };
          let r = std::panic::catch_unwind(std::panic::AssertUnwindSafe(|| $a.$name(off)));
          unsafe { std::ptr::copy_nonoverlapping(saved.as_ptr(), p.add(off), wl) };
          $evals += 1;
          let cut = place == "cut-by-cursor" && bytes.len() > 1;
          match r {
            Err(_) => $bad.push((format!("varint-value:panicked:{}", stringify!($ty)), format!("{}({}) panicked on the {}-byte encoding of {:?} ({})", stringify!($name), off, bytes.len(), want, place))),
            Ok(Ok((n, v))) => {
              if cut && place == "cut-by-cursor" {
                // the bytes below the cursor are a prefix with the continuation bit set on the last one:
                // nothing complete can be decoded from them
                $bad.push((format!("varint-value:decoded-across-cursor:{}", stringify!($ty)), format!("{}({}) returned Ok(({}, {:?})) for an encoding that ends above allocated() = {}", stringify!($name), off, n, v, $al)));
              } else if !cut && (n != bytes.len() || v != want) {
                $bad.push((format!("varint-value:wrong:{}", stringify!($ty)), format!("{}({}) returned ({}, {:?}) for the {}-byte encoding of {:?} ({})", stringify!($name), off, n, v, bytes.len(), want, place)));
              }
            }
            Ok(Err(e)) => {
              if !cut {
                $bad.push((format!("varint-value:refused:{}:{}-bytes", stringify!($ty), bytes.len()), format!("{}({}) failed with {:?} for the {}-byte encoding of {:?} lying entirely below allocated() = {} ({})", stringify!($name), off, e, bytes.len(), want, $al, place)));
              }
            }
          }
        }
      }
    } )*
  };
}

/// varint readers against a reference encoder: boundary values of every encoded length of all 8 types
fn c15_varint_values<A: Subject>(run: &Run, backend: Backend) {
  let flav = A::FLAVOUR;
  for (fill, poison) in [(100u32, 0xFFu8), (256, 0x00), (100, 0x00)] {
    let p = if backend == Backend::File { Some(fresh_path("c15v")) } else { None };
    let a: A = c15_arena::<A>(backend, fill, poison, p.as_ref());
    let al = a.allocated();
    let mut bad: Vec<(String, String)> = vec![];
    let mut evals = 0u64;
    let case = json!({"engine": "c15", "flavour": flav, "backend": backend, "allocated": fill, "poison": poison, "part": "varint-values"});
    crate::crashguard::set_case(crate::crashguard::head_of(&case));
    varint_value_cases!(a, al, bad, evals, (get_u16_varint, u16, u16, false), (get_u32_varint, u32, u32, false), (get_u64_varint, u64, u64, false), (get_u128_varint, u128, u128, false), (get_i16_varint, i16, u16, true), (get_i32_varint, i32, u32, true), (get_i64_varint, i64, u64, true), (get_i128_varint, i128, u128, true));
    run.eval(evals);
    for (sig, msg) in bad {
      viol(run, "C15", &sig, format!("[{flav} {backend:?} allocated {al}] {msg}"), case.clone());
    }
    drop(a);
    if let Some(p) = p {
      let _ = std::fs::remove_file(p);
    }
  }
  crate::crashguard::clear_case();
}

/// slices and readers after `unsync::Arena::truncate` (the mapping is replaced): every backend, file arenas at
/// offset 0 and 4096 of their file, a sequence of growing and shrinking sizes
fn c15_after_truncate(run: &Run) {
  type U = unsync::Arena;
  for (backend, unify, foff, reserved) in [(Backend::Vec, false, 0u32, 0u32), (Backend::Vec, true, 0, 5), (Backend::Anon, true, 0, 0), (Backend::File, true, 0, 0), (Backend::File, true, 4096, 0), (Backend::File, true, 4096, 5)] {
    let mut cfg = Cfg::new(Fl::Optimistic, backend, unify, 256);
    cfg.file_offset = foff;
    cfg.reserved = reserved;
    let path = if backend == Backend::File { Some(fresh_path("c15t")) } else { None };
    let case = json!({"engine": "c15", "tag": "C15", "part": "after-truncate", "cfg": cfg});
    crate::crashguard::set_case(crate::crashguard::head_of(&case));
    let r = std::panic::catch_unwind(std::panic::AssertUnwindSafe(|| {
      let mut bad: Vec<String> = vec![];
      let mut a: U = build::<U>(&cfg, path.as_ref()).expect("arena");
      for (i, n) in [40u32, 16, 7].iter().enumerate() {
        let mut b = a.alloc_bytes(*n).expect("alloc");
        unsafe { b.detach() };
        let (o, c) = (b.offset(), b.capacity());
        drop(b);
        unsafe { std::ptr::write_bytes(a.raw_mut_ptr().add(o), 0x31 + i as u8, c) };
      }
      let al = a.allocated();
      for n in [256 + 64, 256 + 4096, al + 9, al, al - 10, 0, 300] {
        let before: Vec<u8> = a.allocated_memory().to_vec();
        if let Err(e) = a.truncate(n) {
          bad.push(format!("truncate({}) failed: {}", n, e));
          break;
        }
        run.eval(1);
        if a.allocated() != al || a.allocated_memory() != &before[..] {
          bad.push(format!("after truncate({}): allocated {} (was {}), prefix bytes equal: {}", n, a.allocated(), al, a.allocated_memory() == &before[..]));
          break;
        }
        for m in crate::hist::readers_bad(&a) {
          bad.push(format!("after truncate({}): {}", n, m));
        }
        if !bad.is_empty() {
          break;
        }
      }
      bad
    }));
    match r {
      Err(_) => viol(run, "C15", "panic-in-state:after-truncate", format!("[{:?}] slices / readers panicked after a truncate", cfg), case),
      Ok(bad) => {
        for m in bad.into_iter().take(2) {
          viol(run, "C15", "reader-bounds:after-truncate", format!("[{:?}] {}", cfg, m), case.clone());
        }
      }
    }
    if let Some(p) = path {
      let _ = std::fs::remove_file(p);
    }
  }
  crate::crashguard::clear_case();
}

pub fn check_c15(tier: Tier) -> i32 {
  let run = Run::new("C15", tier, "model_checking");
  let thorough = tier == Tier::Thorough;
  crate::crashguard::set_case(crate::crashguard::head_of(&json!({"engine": "c15", "tag": "C15"})));
  let backends: Vec<Backend> = if thorough { vec![Backend::Vec, Backend::Anon, Backend::File] } else { vec![Backend::Vec, Backend::File] };
  for b in backends {
    c15_flavour::<sync::Arena>(&run, b, thorough);
    c15_flavour::<unsync::Arena>(&run, b, thorough);
  }
  for (b, u) in [(Backend::Vec, false), (Backend::Vec, true), (Backend::Anon, false), (Backend::File, true), (Backend::File, false)] {
    c15_states::<sync::Arena>(&run, b, u);
    c15_states::<unsync::Arena>(&run, b, u);
  }
  for (b, u) in [(Backend::Vec, false), (Backend::Vec, true), (Backend::Anon, true), (Backend::File, true)] {
    c15_tiny::<sync::Arena>(&run, b, u);
    c15_tiny::<unsync::Arena>(&run, b, u);
  }
  crate::props_sched::c15_concurrent(&run, thorough);
  c15_after_truncate(&run);
  {
    // every fill state a short history reaches (allocations of every kind, releases, discard_freelist, accounting
    // calls, rewinds, clear): slices and readers are checked around the cursor and the capacity after every step
    use Op::*;
    use Sz::*;
    let alphabet = vec![B(N(7)), B(N(40)), B(R), B(Rp(1)), B(Rp(5)), T(U64), AB(A16, N(9)), AB(U64, Rm(8)), BO(N(16)), D(0), D(1), Disc, IncDisc(3), SetMin(0), Rewind(Pos::Start(0)), Rewind(Pos::End(0)), Rewind(Pos::Cur(-9)), Rewind(Pos::Cur(1 << 40)), Rewind(Pos::Cur((1i64 << 32) - 32)), Clear];
    let depth = if thorough { 5 } else { 4 };
    let spec = Spec { alphabet: alphabet.clone(), depth, oracles: O_READERS, sync: true, unsync: true, diff: false, diff_prop: "C15" };
    let mut hcells: Vec<Cfg> = crate::props_hist::cells(&[(Backend::Vec, false), (Backend::Vec, true), (Backend::File, true)], 225, 256);
    // a reserved prefix in front of the data area (allocated() and the reader offsets count from the start of the arena)
    for (fl, b, unify) in [(Fl::Optimistic, Backend::Vec, false), (Fl::None, Backend::Vec, true), (Fl::Pessimistic, Backend::Anon, false)] {
      let mut c = Cfg::new(fl, b, unify, if unify { 256 + 8 } else { 225 + 5 });
      c.reserved = 5;
      hcells.push(c);
    }
    // every call and every reader goes through a clone of the arena value
    for (fl, b, unify) in [(Fl::Optimistic, Backend::Vec, false), (Fl::Pessimistic, Backend::Vec, true), (Fl::None, Backend::Anon, true)] {
      let mut c = Cfg::new(fl, b, unify, if unify { 256 } else { 225 });
      c.via_clone = true;
      hcells.push(c);
    }
    explore(&run, &spec, &hcells, &[Start::fresh(), fragmented_starts()[1].clone(), fragmented_starts()[4].clone()], "C15");
    run.set("history_pass", json!({"depth": depth, "alphabet": alphabet.iter().map(|o| o.short()).collect::<Vec<_>>(), "cells": hcells.len(), "starts": 3}));
  }
  for b in [Backend::Vec, Backend::File] {
    c15_varint_values::<sync::Arena>(&run, b);
    c15_varint_values::<unsync::Arena>(&run, b);
  }
  crate::crashguard::set_case(crate::crashguard::head_of(&json!({"engine": "c15", "tag": "C15"})));
  let e = run.evaluations.load(std::sync::atomic::Ordering::Relaxed);
  run.trans(e);
  run.sample(|| json!({"arena": "unified Vec arena, capacity 256, data area filled with byte-distinct content, cursor rewound to 47", "calls": "get_u32_le(45) -> OutOfBounds; get_u16_be(45) -> value of bytes 45..47; get_u64_varint(44) with 0xFF vs 0x00 above the cursor -> identical results"}));
  run.rule("18 fixed-width readers and 8 varint readers x every offset 0..=capacity+16 plus usize extremes x fill states; varint readers are run on two arenas that differ only above allocated(), and against a reference LEB128 / zigzag encoder on the boundary values of every encoded length of all 8 types, placed in the middle of the prefix, ending exactly at allocated() and cut by the cursor; evaluations = reader calls; states = (flavour, backend, fill) cells");
  run.set("bounds", json!({"capacity": 256, "offsets": "0..=272, usize::MAX-16..=usize::MAX, 2^32, 2^63 and neighbours", "readers": 26}));
  run.finish()
}

// ---------------------------------------------------------------------------------------------
// C19

/// digest depends on position: a dropped, duplicated or reordered chunk changes it
#[derive(Clone, Default)]
struct PosHash {
  pos: u64,
  acc: u64,
}
impl Checksumer for PosHash {
  fn update(&mut self, buf: &[u8]) {
    for b in buf {
      self.pos += 1;
      let p = self.pos;
      self.acc = self.acc.wrapping_add((*b as u64 + 1).wrapping_mul(p.wrapping_mul(p).wrapping_mul(p) | 1)).rotate_left(7);
    }
  }
  fn reset(&mut self) {
    *self = PosHash::default();
  }
  fn digest(&self) -> u64 {
    self.acc ^ self.pos
  }
}
#[derive(Clone, Default)]
struct BuildPosHash;
impl BuildChecksumer for BuildPosHash {
  type Checksumer = PosHash;
  fn build_checksumer(&self) -> PosHash {
    PosHash::default()
  }
  fn checksum_one(&self, src: &[u8]) -> u64 {
    let mut h = PosHash::default();
    h.update(src);
    h.digest()
  }
}

fn c19_one<A: Subject>(run: &Run, reserved: u32, lens: &[u32], cap: u32, backend: Backend) {
  c19_content::<A>(run, reserved, lens, cap, backend, 0)
}

/// content 0: byte-distinct non-zero pattern; 1: all zero; 2: the pattern with a zero-filled stretch of two pages
/// (contains a whole chunk whatever the chunk phase); 3: zero except the first and the last byte
fn c19_fill(content: u8, o: u64, first: u64, last: u64) -> u8 {
  let pat = (o.wrapping_mul(0x9E37_79B9) >> 7) as u8 | 1;
  match content {
    0 => pat,
    1 => 0,
    2 => {
      if (3000..3000 + 2 * 4096).contains(&o) {
        0
      } else {
        pat
      }
    }
    _ => {
      if o == first || o == last {
        0x77
      } else {
        0
      }
    }
  }
}

fn c19_content<A: Subject>(run: &Run, reserved: u32, lens: &[u32], cap: u32, backend: Backend, content: u8) {
  let mut cfg = Cfg::new(Fl::Optimistic, backend, true, cap);
  cfg.reserved = reserved;
  let path = if backend == Backend::File { Some(fresh_path("c19")) } else { None };
  let a: A = build::<A>(&cfg, path.as_ref()).expect("arena");
  let dof = a.data_offset() as u32;
  if reserved > 0 {
    for (i, b) in unsafe { a.reserved_slice_mut() }.iter_mut().enumerate() {
      *b = 0xF0 ^ i as u8;
    }
  }
  let mut b = a.alloc_bytes(a.remaining() as u32).unwrap();
  unsafe { b.detach() };
  let (off, bcap, ..) = meta_of(&b);
  drop(b);
  for i in 0..bcap {
    let o = (off + i) as u64;
    unsafe { *a.raw_mut_ptr().add(off + i) = c19_fill(content, o, off as u64, (off + bcap - 1) as u64) };
  }
  let crc = Crc32::new();
  let ph = BuildPosHash;
  for &l in lens {
    if l < dof || l > cap {
      continue;
    }
    unsafe { a.rewind(ArenaPosition::Start(l)) };
    if a.reserved_bytes() != reserved as usize {
      viol(run, "C19", "reserved-bytes", format!("[{} {:?}] reserved_bytes() = {} on an arena created with reserved {}", A::FLAVOUR, backend, a.reserved_bytes(), reserved), json!({"engine": "c19", "flavour": A::FLAVOUR, "reserved": reserved, "allocated": l}));
    }
    let data = &a.allocated_memory()[a.reserved_bytes()..];
    let want1 = crc.checksum_one(data);
    let want2 = ph.checksum_one(data);
    let got = std::panic::catch_unwind(std::panic::AssertUnwindSafe(|| (a.checksum(&crc), a.checksum(&ph))));
    run.eval(2);
    let Ok((got1, got2)) = got else {
      viol(run, "C19", "checksum-panicked", format!("[{} {:?} reserved {} allocated {} content {}] checksum() panicked", A::FLAVOUR, backend, reserved, l, content), json!({"engine": "c19", "flavour": A::FLAVOUR, "reserved": reserved, "allocated": l, "content": content}));
      continue;
    };
    if got1 != want1 || got2 != want2 {
      viol(run, "C19", &format!("digest-differs:{}{}", if got2 != want2 { "poshash" } else { "crc32" }, if content == 0 { "" } else { ":sparse-content" }), format!("[{} {:?} reserved {} allocated {} content {}] checksum() = ({:#x},{:#x}), one-shot over allocated_memory()[reserved_bytes()..] = ({:#x},{:#x})", A::FLAVOUR, backend, reserved, l, content, got1, got2, want1, want2), json!({"engine": "c19", "flavour": A::FLAVOUR, "reserved": reserved, "allocated": l, "content": content}));
    }
    run.states.insert(hash_of(&(reserved, l, A::SYNC)));
    if (l - reserved) as usize >= a.page_size() {
      run.nontrivial.insert(hash_of(&(reserved, l)));
    }
  }
  drop(a);
  if let Some(p) = path {
    let _ = std::fs::remove_file(p);
  }
}

/// the same equation on a file arena that was closed and opened again read-only (the cursor cannot be moved
/// there: one file per allocated length)
fn c19_reopened<A: Subject>(run: &Run, reserved: u32, lens: &[u32], cap: u32, content: u8) {
  let mut cfg = Cfg::new(Fl::Optimistic, Backend::File, true, cap);
  cfg.reserved = reserved;
  let crc = Crc32::new();
  let ph = BuildPosHash;
  for &l in lens {
    if (l as usize) < cfg.data_offset() || l > cap {
      continue;
    }
    let path = fresh_path("c19r");
    {
      let a: A = build::<A>(&cfg, Some(&path)).expect("arena");
      if reserved > 0 {
        for (i, b) in unsafe { a.reserved_slice_mut() }.iter_mut().enumerate() {
          *b = 0xF0 ^ i as u8;
        }
      }
      let mut b = a.alloc_bytes(a.remaining() as u32).unwrap();
      unsafe { b.detach() };
      let (off, bcap, ..) = meta_of(&b);
      drop(b);
      for i in 0..bcap {
        let o = (off + i) as u64;
        unsafe { *a.raw_mut_ptr().add(off + i) = c19_fill(content, o, off as u64, (off + bcap - 1) as u64) };
      }
      unsafe { a.rewind(ArenaPosition::Start(l)) };
    }
    for mode in crate::props_file::Mode::ALL {
      let a: A = match crate::props_file::open::<A>(&path, cfg.options().with_read(true).with_write(true), mode) {
        Ok(a) => a,
        Err(e) => {
          eprintln!("machinery: c19 reopen {:?} failed: {}", mode, e);
          std::process::exit(2);
        }
      };
      let case = json!({"engine": "c19", "flavour": A::FLAVOUR, "reserved": reserved, "allocated": l, "content": content, "reopened": mode});
      if a.reserved_bytes() != reserved as usize || a.reserved_slice().len() != reserved as usize {
        viol(run, "C19", "reserved-bytes:reopened", format!("[{} {:?} reopen] reserved_bytes() = {}, reserved_slice().len() = {} on a file created with reserved {}", A::FLAVOUR, mode, a.reserved_bytes(), a.reserved_slice().len(), reserved), case.clone());
      }
      let rb = a.reserved_bytes().min(a.allocated());
      let data = &a.allocated_memory()[rb..];
      let (want1, want2) = (crc.checksum_one(data), ph.checksum_one(data));
      let got = std::panic::catch_unwind(std::panic::AssertUnwindSafe(|| (a.checksum(&crc), a.checksum(&ph))));
      run.eval(2);
      let Ok((got1, got2)) = got else {
        viol(run, "C19", "checksum-panicked:reopened", format!("[{} {:?} reopen, reserved {} allocated {} content {}] checksum() panicked", A::FLAVOUR, mode, reserved, l, content), case);
        continue;
      };
      if got1 != want1 || got2 != want2 {
        viol(run, "C19", &format!("digest-differs:reopened:{}", if mode.writable() { "writable" } else { "read-only" }), format!("[{} {:?} reopen, reserved {} allocated {} content {}] checksum() = ({:#x},{:#x}), one-shot over allocated_memory()[reserved_bytes()..] = ({:#x},{:#x})", A::FLAVOUR, mode, reserved, l, content, got1, got2, want1, want2), case);
      }
    }
    let _ = std::fs::remove_file(&path);
  }
}

pub fn check_c19(tier: Tier) -> i32 {
  let run = Run::new("C19", tier, "model_checking");
  let thorough = tier == Tier::Thorough;
  let page = 4096u32;
  let cap = 3 * page + 128;
  // (up to and including the capacity: an arena that is exactly full has remaining() == 0)
  let all: Vec<u32> = (0..=cap).collect();
  let near: Vec<u32> = (0..=cap).filter(|l| l % page <= 70 || l % page >= page - 3 || *l < 200 || *l + 3 >= cap).collect();
  let mut items: Vec<(u32, bool, bool)> = vec![];
  for r in 0..=64u32 {
    let full = thorough || [0, 5, 8, 64].contains(&r);
    items.push((r, full, true));
    items.push((r, full, false));
  }
  par_for_each(&items, |_, &(r, full, sync)| {
    let lens = if full { &all } else { &near };
    if sync {
      c19_one::<sync::Arena>(&run, r, lens, cap, Backend::Vec);
    } else {
      c19_one::<unsync::Arena>(&run, r, lens, cap, Backend::Vec);
    }
    if r == 5 && sync {
      c19_one::<sync::Arena>(&run, r, &near, cap, Backend::File);
      c19_one::<sync::Arena>(&run, r, &near, cap, Backend::Anon);
    }
    // contents with zero-filled stretches (never written, partly written, a zeroed hole)
    if [0, 5, 8, 64].contains(&r) || thorough {
      for content in [1u8, 2, 3] {
        if sync {
          c19_content::<sync::Arena>(&run, r, &near, cap, Backend::Vec, content);
        } else {
          c19_content::<unsync::Arena>(&run, r, &near, cap, Backend::Vec, content);
        }
      }
    }
    // closed and opened again in every mode
    if [0, 5, 64].contains(&r) {
      let few: Vec<u32> = vec![r + 40, 200, page - 1, page, page + r + 1, 2 * page + 7, 3 * page + 80];
      for content in [0u8, 2] {
        if sync {
          c19_reopened::<sync::Arena>(&run, r, &few, cap, content);
        } else {
          c19_reopened::<unsync::Arena>(&run, r, &few, cap, content);
        }
      }
    }
  });
  // arenas smaller than a page, of a page, and just above (capacities that are not powers of two included): every
  // length up to the capacity
  let small: Vec<(u32, u32, bool)> = [100u32, 1000, 3000, 4095, 4096, 4097, 5000].iter().flat_map(|c| [(0u32, *c, true), (5, *c, true), (5, *c, false), (0, *c, false)]).collect();
  par_for_each(&small, |_, &(r, c, sync)| {
    let lens: Vec<u32> = (0..=c).collect();
    for b in [Backend::Vec, Backend::Anon] {
      if sync {
        c19_one::<sync::Arena>(&run, r, &lens, c, b);
      } else {
        c19_one::<unsync::Arena>(&run, r, &lens, c, b);
      }
    }
  });
  let e = run.evaluations.load(std::sync::atomic::Ordering::Relaxed);
  run.trans(e);
  run.sample(|| json!({"reserved": 5, "allocated": 2 * page + 5 + 1, "builders": ["Crc32", "PosHash (position-weighted, order sensitive)"], "oracle": "checksum(b) == b.checksum_one(&allocated_memory()[5..])"}));
  run.rule("allocated length = every value (quick: every value for reserved in {0,5,8,64}, boundary-dense around page multiples for the other reserved values) x reserved 0..=64 x {Crc32, position-sensitive hash} x {sync, unsync}; contents: a byte-distinct pattern, all zero, the pattern with a two-page zero hole, zero except first and last byte; file arenas closed and opened again in the four modes for selected lengths; the reference slices at reserved_bytes() as the accessor reports it; evaluations = digests compared; non-trivial = input of at least one page");
  run.set("bounds", json!({"max_allocated": cap, "reserved": "0..=64", "page_size": page, "small_capacities": [100, 1000, 3000, 4095, 4096, 4097, 5000]}));
  run.finish()
}

// ---------------------------------------------------------------------------------------------
// C16 construction grid + side-by-side histories

fn c16_construct<A: Subject>(run: &Run, reserved: u32, cap: u32, unify: bool, backend: Backend) {
  c16_construct_at::<A>(run, reserved, cap, unify, backend, 0, false)
}

/// every descriptive accessor of an arena value (all but refs())
#[allow(clippy::type_complexity)]
fn acc_all<A: Subject>(a: &A) -> ((usize, usize, usize, bool, bool, u16, u16, u32), (usize, u32, usize, [bool; 5], bool, usize)) {
  ((a.data_offset(), a.capacity(), a.reserved_bytes(), a.unify(), a.read_only(), a.magic_version(), a.version(), a.minimum_segment_size()), (a.allocated(), a.discarded(), a.remaining(), [a.is_map(), a.is_ondisk(), a.is_inmemory(), a.is_map_anon(), a.is_map_file()], a.path().is_some(), a.page_size()))
}

/// a clone (and a clone of the clone) describes the same arena: same accessors, one more reference each
fn c16_clones_agree<A: Subject>(run: &Run, a: &A, what: &str, case: &serde_json::Value) {
  let base = acc_all(a);
  let r0 = a.refs();
  let c1 = a.clone();
  let c2 = c1.clone();
  let mut bad = vec![];
  if acc_all(&c1) != base {
    bad.push(format!("clone reports {:?}, the original {:?}", acc_all(&c1), base));
  }
  if acc_all(&c2) != base {
    bad.push(format!("clone of a clone reports {:?}, the original {:?}", acc_all(&c2), base));
  }
  if a.refs() != r0 + 2 || c2.refs() != r0 + 2 {
    bad.push(format!("refs {} / {} with two clones alive (was {})", a.refs(), c2.refs(), r0));
  }
  if c1.reserved_slice().len() != a.reserved_slice().len() || c1.memory().as_ptr() != a.memory().as_ptr() {
    bad.push("reserved_slice / memory of the clone differ from the original's".into());
  }
  drop(c1);
  drop(c2);
  if acc_all(a) != base || a.refs() != r0 {
    bad.push(format!("after dropping the clones the original reports {:?} refs {} (was {:?} refs {})", acc_all(a), a.refs(), base, r0));
  }
  if !bad.is_empty() {
    viol(run, "C16", &format!("clone-accessors:{}", what), format!("[{} {}] {}", A::FLAVOUR, what, bad.join("; ")), case.clone());
  }
}

/// `file_offset` > 0: a file arena whose window starts at that offset of the file
fn c16_construct_at<A: Subject>(run: &Run, reserved: u32, cap: u32, unify: bool, backend: Backend, file_offset: u32, lock_meta: bool) {
  let mut cfg = Cfg::new(Fl::Optimistic, backend, unify, cap);
  cfg.reserved = reserved;
  cfg.lock_meta = lock_meta;
  cfg.file_offset = file_offset;
  cfg.magic = 7;
  cfg.min_seg = 13;
  let prefix = cfg.data_offset() as u32;
  let path = if backend == Backend::File { Some(fresh_path("c16")) } else { None };
  let case = json!({"engine": "c16", "tag": "C16", "flavour": A::FLAVOUR, "cfg": cfg});
  // constructing (mapping, sizing the file, writing the header) is subject code: a signal here belongs to this case
  crate::crashguard::set_case(crate::crashguard::head_of(&case));
  let r = build::<A>(&cfg, path.as_ref());
  run.eval(1);
  let o = cfg.options();
  let want_dof = if cfg.unified() { o.data_offset_unify::<A>() } else { o.data_offset::<A>() };
  if want_dof != prefix as usize {
    viol(run, "C16", "options-data-offset", format!("Options::data_offset{} = {} for reserved {}, layout formula gives {}", if cfg.unified() { "_unify" } else { "" }, want_dof, reserved, prefix), case.clone());
  }
  match r {
    Err(e) => {
      // (a refusal by the operating system — mlock over the limit, say — is not the arena's decision)
      if cap >= prefix && cap > 0 && !(lock_meta && e.contains("os error")) {
        viol(run, if lock_meta { "C16" } else { "C16" }, if lock_meta { "construction-refused:lock-meta" } else { "construction-refused" }, format!("[{} {:?} unify={}] reserved {} capacity {} (prefix {}) refused: {}", A::FLAVOUR, backend, unify, reserved, cap, prefix, e), case);
      }
    }
    Ok(a) => {
      if cap < prefix {
        viol(run, "C16", "construction-accepted", format!("[{} {:?} unify={}] reserved {} capacity {} < prefix {} accepted", A::FLAVOUR, backend, unify, reserved, cap, prefix), case.clone());
      } else {
        let mut bad = vec![];
        if a.data_offset() != want_dof {
          bad.push(format!("data_offset {} != {}", a.data_offset(), want_dof));
        }
        if a.allocated() != want_dof {
          bad.push(format!("allocated {} on a new arena", a.allocated()));
        }
        if a.reserved_bytes() != reserved as usize || a.reserved_slice().len() != reserved as usize {
          bad.push(format!("reserved {} / slice {}", a.reserved_bytes(), a.reserved_slice().len()));
        }
        if a.capacity() != cap as usize || a.remaining() != cap as usize - a.allocated() {
          bad.push(format!("capacity {} remaining {}", a.capacity(), a.remaining()));
        }
        if a.unify() != cfg.unified() || a.read_only() || a.magic_version() != 7 || a.version() != 0 || a.minimum_segment_size() != 13 || a.refs() != 1 || a.discarded() != 0 {
          bad.push(format!("unify {} read_only {} magic {} version {} min_seg {} refs {} discarded {}", a.unify(), a.read_only(), a.magic_version(), a.version(), a.minimum_segment_size(), a.refs(), a.discarded()));
        }
        let (m, d, i, an, f) = (a.is_map(), a.is_ondisk(), a.is_inmemory(), a.is_map_anon(), a.is_map_file());
        let want = match backend {
          Backend::Vec => (false, false, true, false, false),
          Backend::Anon => (true, false, true, true, false),
          Backend::File => (true, true, false, false, true),
        };
        if (m, d, i, an, f) != want {
          bad.push(format!("is_map {} is_ondisk {} is_inmemory {} is_map_anon {} is_map_file {}", m, d, i, an, f));
        }
        if (backend == Backend::File) != a.path().is_some() {
          bad.push("path()".into());
        }
        if a.page_size() == 0 || a.page_size() & (a.page_size() - 1) != 0 {
          bad.push(format!("page_size {}", a.page_size()));
        }
        // the first allocation of each alignment starts at the first aligned offset at or after data_offset
        if !bad.is_empty() {
          viol(run, "C16", "accessors", format!("[{} {:?} unify={} reserved {} capacity {}] {}", A::FLAVOUR, backend, unify, reserved, cap, bad.join("; ")), case.clone());
        }
        c16_clones_agree(run, &a, "constructed", &case);
        run.nontrivial.insert(hash_of(&(reserved, cap, unify, backend as u8, A::SYNC)));
        if backend == Backend::File {
          // an arena that could be created can be opened again in every mode, with the same layout
          drop(a);
          let p = path.as_ref().unwrap();
          for mode in crate::props_file::Mode::ALL {
            let o = cfg.options().with_read(true).with_write(true);
            match crate::props_file::open::<A>(p, o, mode) {
              Err(e) => viol(run, "C16", &format!("reopen-refused:{:?}", mode), format!("[{} reserved {} capacity {} (prefix {})] created but {:?} reopen failed: {}", A::FLAVOUR, reserved, cap, prefix, mode, e), case.clone()),
              Ok(b) => {
                if b.data_offset() != want_dof || b.capacity() != cap as usize || b.reserved_bytes() != reserved as usize || !b.unify() || b.read_only() == mode.writable() {
                  viol(run, "C16", &format!("reopen-accessors:{:?}", mode), format!("[{} reserved {} capacity {}] {:?} reopen: data_offset {} capacity {} reserved {} unify {} read_only {}", A::FLAVOUR, reserved, cap, mode, b.data_offset(), b.capacity(), b.reserved_bytes(), b.unify(), b.read_only()), case.clone());
                }
                // the remaining accessors report what the file was created with
                if b.magic_version() != 7 || b.version() != 0 || b.minimum_segment_size() != 13 || b.allocated() != want_dof || b.discarded() != 0 || b.remaining() != cap as usize - want_dof || !b.is_map_file() || !b.is_ondisk() || b.is_inmemory() || b.path().is_none() || b.refs() != 1 {
                  viol(run, "C16", &format!("reopen-accessors:{:?}", mode), format!("[{} reserved {} capacity {}] {:?} reopen: magic_version {} version {} minimum_segment_size {} allocated {} discarded {} remaining {} is_map_file {} is_ondisk {} is_inmemory {} path {:?} refs {}", A::FLAVOUR, reserved, cap, mode, b.magic_version(), b.version(), b.minimum_segment_size(), b.allocated(), b.discarded(), b.remaining(), b.is_map_file(), b.is_ondisk(), b.is_inmemory(), b.path().is_some(), b.refs()), case.clone());
                }
                c16_clones_agree(run, &b, &format!("{:?}", mode), &case);
              }
            }
            run.eval(1);
          }
        }
      }
    }
  }
  run.states.insert(hash_of(&(reserved, cap, unify, backend as u8, A::SYNC)));
  crate::crashguard::clear_case();
  if let Some(p) = path {
    let _ = std::fs::remove_file(p);
  }
}

/// same history on Vec-unify, anon-unify and file arenas: images identical after every step
fn c16_side_by_side(run: &Run, alphabet: &[Op], depth: usize, fl: Fl, reserved: u32) {
  let mk = |b: Backend| {
    let mut c = Cfg::new(fl, b, true, 256 + ((reserved + 7) & !7));
    c.reserved = reserved;
    c
  };
  let cfgs = [mk(Backend::Vec), mk(Backend::Anon), mk(Backend::File)];
  let n = alphabet.len();
  let mut idx = vec![0usize; depth];
  let spec = Spec { alphabet: alphabet.to_vec(), depth, oracles: O_LAYOUT, sync: true, unsync: false, diff: false, diff_prop: "C16" };
  let st = Start::fresh();
  let mut pairs: Vec<Pair> = cfgs.iter().map(|c| Pair::new(c, &st, &spec)).collect();
  loop {
    let word: Vec<Op> = idx.iter().map(|i| alphabet[*i]).collect();
    crate::crashguard::set_case(crate::crashguard::head_of(&json!({"engine": "c16-sbs", "tag": "C16", "fl": fl, "reserved": reserved, "word": word})));
    // run step by step on the three arenas, comparing images
    let mut cut: Option<usize> = None;
    let mut imgs: Vec<Vec<Vec<u8>>> = vec![vec![]; 3];
    for (bi, p) in pairs.iter_mut().enumerate() {
      let r = p.rs.as_mut().unwrap();
      for (k, op) in word.iter().enumerate() {
        let mut v = vec![];
        // (the harness fills every new handle with its pattern right after the call: what the three backends hold at
        // the moment of the return is compared through the zero oracle, on each of them)
        match r.step(*op, O_LAYOUT | O_ZERO, &mut v) {
          None => {
            cut = Some(cut.map(|c| c.min(k)).unwrap_or(k));
            break;
          }
          Some(_) => imgs[bi].push(r.a.memory().to_vec()),
        }
        for x in v {
          viol(run, "C16", &x.class, format!("[{:?} history {}] step {}: {}", cfgs[bi], word_str(&word[..=k]), k, x.msg), json!({"engine": "hist", "cfg": cfgs[bi], "start": st, "word": word[..=k].to_vec(), "oracles": O_LAYOUT, "sync": true, "unsync": false, "diff": false}));
        }
      }
      p.reset(&st, &spec);
    }
    let steps = imgs.iter().map(|i| i.len()).min().unwrap();
    for k in 0..steps {
      run.trans(1);
      if imgs[0][k] != imgs[1][k] || imgs[0][k] != imgs[2][k] {
        let which = if imgs[0][k] != imgs[1][k] { "Vec vs anon" } else { "Vec vs file" };
        let other = if imgs[0][k] != imgs[1][k] { &imgs[1][k] } else { &imgs[2][k] };
        let at = imgs[0][k].iter().zip(other.iter()).position(|(x, y)| x != y);
        viol(run, "C16", "images-differ", format!("[{:?} reserved {} history {}] after step {} the unified images differ ({}) first at byte {:?}", fl, reserved, word_str(&word[..=k]), k, which, at), json!({"engine": "c16-sbs", "fl": fl, "reserved": reserved, "word": word[..=k].to_vec()}));
        break;
      }
      run.states.insert(hash_of(&imgs[0][k]));
    }
    run.eval(1);
    // odometer (prefix-closed)
    let mut k = cut.unwrap_or(depth - 1);
    for j in k + 1..depth {
      idx[j] = 0;
    }
    loop {
      idx[k] += 1;
      if idx[k] < n {
        break;
      }
      idx[k] = 0;
      if k == 0 {
        return;
      }
      k -= 1;
    }
  }
}

/// resizing (unsync only) is an arena operation like any other: the caller's reserved bytes, the
/// identification bytes and the descriptive accessors survive it on every backend
fn c16_truncate_keeps_prefix(run: &Run) {
  for (backend, unify) in [(Backend::Vec, false), (Backend::Vec, true), (Backend::Anon, false), (Backend::Anon, true), (Backend::File, true)] {
    for reserved in [5u32, 8, 40] {
      let mut cfg = Cfg::new(Fl::Optimistic, backend, unify, 300 + reserved);
      cfg.reserved = reserved;
      cfg.magic = 7;
      cfg.min_seg = 13;
      let path = if backend == Backend::File { Some(fresh_path("c16t")) } else { None };
      let case = json!({"engine": "c16", "tag": "C16", "flavour": "unsync", "cfg": cfg, "part": "truncate"});
      crate::crashguard::set_case(crate::crashguard::head_of(&case));
      let mut a: unsync::Arena = build(&cfg, path.as_ref()).expect("arena");
      for (i, b) in unsafe { a.reserved_slice_mut() }.iter_mut().enumerate() {
        *b = 0xC0 | (i as u8 & 0x3f);
      }
      let want: Vec<u8> = a.reserved_slice().to_vec();
      let mut h = a.alloc_bytes(30).unwrap();
      unsafe { h.detach() };
      drop(h);
      let id: Vec<u8> = if cfg.unified() { a.memory()[reserved as usize..reserved as usize + 8].to_vec() } else { vec![] };
      let acc = |a: &unsync::Arena| (a.data_offset(), a.reserved_bytes(), a.magic_version(), a.version(), a.minimum_segment_size(), a.unify(), a.read_only(), a.allocated(), a.discarded());
      let before = acc(&a);
      for n in [500usize, 200, 201, 1000, 64 + reserved as usize] {
        let r = a.truncate(n);
        run.eval(1);
        let mut bad = vec![];
        if a.reserved_slice() != &want[..] {
          bad.push(format!("reserved_slice() = {:x?}, the caller had stored {:x?}", a.reserved_slice(), want));
        }
        if cfg.unified() && a.memory()[reserved as usize..reserved as usize + 8] != id[..] {
          bad.push("the identification bytes changed".to_string());
        }
        if acc(&a) != before {
          bad.push(format!("accessors (data_offset, reserved, magic, version, min segment, unify, read_only, allocated, discarded) {:?} -> {:?}", before, acc(&a)));
        }
        if r.is_err() {
          bad.push(format!("truncate({}) failed: {:?}", n, r.err()));
        }
        for m in bad {
          viol(run, "C16", "after-truncate", format!("[unsync {:?} unify={} reserved {}] after truncate({}): {}", backend, unify, reserved, n, m), case.clone());
        }
      }
      drop(a);
      if let Some(p) = path {
        let _ = std::fs::remove_file(p);
      }
    }
  }
  crate::crashguard::clear_case();
}

pub fn check_c16(tier: Tier) -> i32 {
  let run = Run::new("C16", tier, "model_checking");
  let thorough = tier == Tier::Thorough;
  crate::crashguard::set_case(crate::crashguard::head_of(&json!({"engine": "c16", "tag": "C16"})));
  // (a) construction grid
  let reserved: Vec<u32> = if thorough { (0..=4096).collect() } else { (0..=72).chain([127, 128, 129, 255, 256, 1000, 4095, 4096]).collect() };
  let mut items = vec![];
  for r in &reserved {
    for unify in [false, true] {
      for backend in [Backend::Vec, Backend::Anon, Backend::File] {
        if backend != Backend::Vec && !thorough && *r > 40 && r % 8 > 1 {
          continue;
        }
        items.push((*r, unify, backend));
      }
    }
  }
  par_for_each(&items, |_, &(r, unify, backend)| {
    let mut c = Cfg::new(Fl::Optimistic, backend, unify, 0);
    c.reserved = r;
    let prefix = c.data_offset() as u32;
    for cap in [prefix.saturating_sub(1), prefix, prefix + 1, prefix + 64] {
      c16_construct::<sync::Arena>(&run, r, cap, unify, backend);
      c16_construct::<unsync::Arena>(&run, r, cap, unify, backend);
    }
  });
  // file arenas that start at a page-aligned offset of their file: same layout, same accessors, reopen in every mode
  let off_items: Vec<u32> = if thorough { (0..=72).collect() } else { vec![0, 1, 5, 8, 40] };
  par_for_each(&off_items, |_, &r| {
    let mut c = Cfg::new(Fl::Optimistic, Backend::File, true, 0);
    c.reserved = r;
    let prefix = c.data_offset() as u32;
    for cap in [prefix.saturating_sub(1), prefix, prefix + 1, prefix + 64] {
      c16_construct_at::<sync::Arena>(&run, r, cap, true, Backend::File, 4096, false);
      c16_construct_at::<unsync::Arena>(&run, r, cap, false, Backend::File, 8192, false);
    }
  });
  // `with_lock_meta(true)` is an option like any other: construction succeeds exactly when the capacity holds the prefix
  let lock_items: Vec<(u32, bool, Backend)> = [0u32, 1, 5, 8, 13].iter().flat_map(|r| [(*r, false, Backend::Anon), (*r, true, Backend::Anon), (*r, true, Backend::File), (*r, false, Backend::Vec)]).collect();
  par_for_each(&lock_items, |_, &(r, unify, backend)| {
    let mut c = Cfg::new(Fl::Optimistic, backend, unify, 0);
    c.reserved = r;
    let prefix = c.data_offset() as u32;
    for cap in [prefix.saturating_sub(1), prefix, prefix + 1, prefix + 8, prefix + 23, prefix + 24, prefix + 64] {
      c16_construct_at::<sync::Arena>(&run, r, cap, unify, backend, 0, true);
      c16_construct_at::<unsync::Arena>(&run, r, cap, unify, backend, 0, true);
    }
  });
  c16_truncate_keeps_prefix(&run);
  // (b) histories with the layout oracle (reserved immutable, id bytes, remaining, first offset) on both flavours
  use Op::*;
  use Sz::*;
  let alphabet = vec![B(N(7)), B(N(16)), B(R), T(U64), T(A16), AB(U32, N(5)), TO(U16), D(0), D(1), F(0), Disc, IncDisc(3), SetMin(0), Rewind(Pos::Start(0)), Rewind(Pos::End(190)), Rewind(Pos::Cur(-300)), Clear];
  let spec = Spec { alphabet: alphabet.clone(), depth: if thorough { 5 } else { 4 }, oracles: O_LAYOUT, sync: true, unsync: true, diff: false, diff_prop: "C16" };
  let mut cells = vec![];
  for fl in Fl::ALL {
    for (b, u) in [(Backend::Vec, false), (Backend::Vec, true), (Backend::Anon, true), (Backend::File, true), (Backend::File, false)] {
      for reserved in [0u32, 5, 8] {
        let mut c = Cfg::new(fl, b, u, 200 + reserved);
        c.reserved = reserved;
        cells.push(c);
        if fl == Fl::Optimistic {
          // the same grid through a clone of the arena value
          c.via_clone = true;
          cells.push(c);
        }
      }
    }
  }
  explore(&run, &spec, &cells, &[Start::fresh(), fragmented_starts()[1].clone()], "C16");
  // (c) side by side
  let sbs: Vec<(Fl, u32)> = vec![(Fl::Optimistic, 0), (Fl::Pessimistic, 5), (Fl::None, 8)];
  let a2 = vec![B(N(7)), B(N(16)), B(N(40)), B(R), T(U64), AB(A16, N(3)), D(0), D(1), F(0), Disc, IncDisc(3), SetMin(0), Clear];
  par_for_each(&sbs, |_, &(fl, r)| c16_side_by_side(&run, &a2, if thorough { 4 } else { 3 }, fl, r));
  run.sample(|| json!({"construction": {"reserved": 5, "unify": true, "backend": "File", "capacities": "prefix-1 (refused), prefix, prefix+1, prefix+64"}, "side_by_side": "history B(7) T<a8s8> D0 Disc on Vec-unify / anon-unify / file: byte-identical images after every step"}));
  run.rule("construction: reserved 0..=72 and selected larger values (thorough: 0..=4096) x capacity around the prefix x layout x backend x flavour; histories: every word of the stated depth with the layout oracle; side-by-side: every word on three unified backends with image equality; evaluations = constructions + histories");
  run.set("bounds", json!({"reserved_values": reserved.len(), "history_depth": spec.depth, "alphabet": alphabet.iter().map(|o| o.short()).collect::<Vec<_>>()}));
  run.finish()
}

// ---------------------------------------------------------------------------------------------
// C17

fn positions(allocated: u32, dof: u32, cap: u32) -> Vec<Pos> {
  let mut v = vec![];
  let us: Vec<u32> = vec![0, 1, dof.saturating_sub(1), dof, dof + 1, allocated.saturating_sub(1), allocated, allocated + 1, cap - 1, cap, cap + 1, 1 << 31, (1u32 << 31) - 1, u32::MAX - 1, u32::MAX];
  for u in &us {
    v.push(Pos::Start(*u));
    v.push(Pos::End(*u));
  }
  let a = allocated as i64;
  let c = cap as i64;
  let d = dof as i64;
  for x in [i64::MIN, i64::MIN + 1, -(1i64 << 32), -c - 1, -c, -a - 1, -a, -a + 1, d - a - 1, d - a, d - a + 1, -1, 0, 1, c - a - 1, c - a, c - a + 1, 1i64 << 32, (1i64 << 32) - a, (1i64 << 32) - a + d - 1, (1i64 << 32) - a + d, (1i64 << 32) - a + c + 1, (1i64 << 32) + 1, 1i64 << 33, (1i64 << 40) - a, -(1i64 << 32) - a + d, i64::MAX - a - 1, i64::MAX - a, i64::MAX - a + 1, i64::MAX - 1, i64::MAX] {
    v.push(Pos::Cur(x));
  }
  v
}

/// C11: the two flavours answer every rewind position alike (cursor, what the next allocations return)
pub fn c11_rewind_grid(run: &Run) {
  let mut cfgs = vec![];
  for fl in [Fl::Optimistic, Fl::None] {
    for (b, u, cap, reserved) in [(Backend::Vec, false, 225u32, 0u32), (Backend::Vec, true, 256, 0), (Backend::Vec, false, 265, 40), (Backend::File, true, 296, 40)] {
      let mut c = Cfg::new(fl, b, u, cap);
      c.reserved = reserved;
      cfgs.push(c);
    }
  }
  let spec = Spec { alphabet: vec![], depth: 6, oracles: 0, sync: true, unsync: true, diff: true, diff_prop: "C11" };
  let st = Start::fresh();
  par_for_each(&cfgs, |_, cfg| {
    let mut pair = Pair::new(cfg, &st, &spec);
    for pre in [vec![], vec![Op::B(Sz::N(1))], vec![Op::B(Sz::N(40)), Op::B(Sz::N(16)), Op::D(0)], vec![Op::B(Sz::R)]] {
      let probe = pair.run_word(&st, &pre, &spec, 0);
      let al = probe.obs_sync.last().map(|o| o.allocated).unwrap_or(cfg.data_offset() as u32);
      for p in positions(al, cfg.data_offset() as u32, cfg.cap) {
        let mut word = pre.clone();
        word.extend([Op::Rewind(p), Op::B(Sz::N(1)), Op::T(U64)]);
        let case = json!({"engine": "hist", "tag": "C11", "cfg": cfg, "start": st, "word": word, "oracles": 0, "sync": true, "unsync": true, "diff": true});
        crate::crashguard::set_case(crate::crashguard::head_of(&case));
        let out = pair.run_word(&st, &word, &spec, 0);
        run.eval(1);
        run.trans(out.executed as u64);
        for (k, fl, v) in &out.viol {
          viol(run, "C11", &format!("{}:rewind-grid", v.class), format!("[{} {:?} history {}] step {}: {}", fl, cfg, word_str(&word), k, v.msg), case.clone());
        }
      }
    }
    crate::crashguard::clear_case();
  });
}

fn c17_rewind_grid<A: Subject>(run: &Run, cfg: &Cfg) {
  // states: a few cursor positions with a live free list below them
  // (the last two leave written bytes above the cursor: a seek over them must not change them)
  for pre in [vec![], vec![Op::B(Sz::N(1))], vec![Op::B(Sz::N(40)), Op::B(Sz::N(16)), Op::D(0)], vec![Op::B(Sz::R)], vec![Op::B(Sz::N(40)), Op::B(Sz::N(16)), Op::B(Sz::R), Op::D(0)], vec![Op::B(Sz::N(40)), Op::Rewind(Pos::Cur(-30))], vec![Op::B(Sz::R), Op::Rewind(Pos::Start(0))]] {
    let probe = Runner::<A>::new(cfg).unwrap();
    let (dof, cap) = (cfg.data_offset() as u32, cfg.cap);
    drop(probe);
    // allocated after `pre` is needed to build the position list: run once
    let mut r0 = Runner::<A>::new(cfg).unwrap();
    let mut v = vec![];
    for op in &pre {
      r0.step(*op, 0, &mut v);
    }
    let al = r0.a.allocated() as u32;
    drop(r0);
    for p in positions(al, dof, cap) {
      let mut r = Runner::<A>::new(cfg).unwrap();
      let mut v = vec![];
      for op in &pre {
        r.step(*op, 0, &mut v);
      }
      let word: Vec<Op> = pre.iter().cloned().chain([Op::Rewind(p)]).collect();
      crate::crashguard::set_case(crate::crashguard::head_of(&json!({"engine": "hist", "tag": "C17", "cfg": cfg, "start": Start::fresh(), "word": word, "oracles": O_REWIND, "sync": A::SYNC, "unsync": !A::SYNC, "diff": false})));
      let out = std::panic::catch_unwind(std::panic::AssertUnwindSafe(|| r.step(Op::Rewind(p), O_REWIND, &mut v)));
      run.eval(1);
      run.trans(1);
      let case = json!({"engine": "hist", "cfg": cfg, "start": Start::fresh(), "word": word, "oracles": O_REWIND, "sync": A::SYNC, "unsync": !A::SYNC, "diff": false});
      let class_of_pos = match p {
        Pos::Cur(d) if d > (1 << 40) || d < -(1 << 40) => "Current(huge)",
        Pos::Cur(_) => "Current",
        Pos::Start(_) => "Start",
        Pos::End(_) => "End",
      };
      match out {
        Err(_) => viol(run, "C17", &format!("rewind-panicked:{}", class_of_pos), format!("[{} {:?}] rewind({:?}) with allocated {} panicked", A::FLAVOUR, cfg, p, al), case),
        Ok(_) => {
          for x in v {
            viol(run, "C17", &format!("{}:{}", x.class, class_of_pos), format!("[{} {:?} after {}] {}", A::FLAVOUR, cfg, word_str(&pre), x.msg), case.clone());
          }
        }
      }
      run.states.insert(hash_of(&(A::SYNC, cfg, al, p)));
      run.nontrivial.insert(hash_of(&(A::SYNC, cfg, al, p)));
      // the runner may hold a cursor outside the data area now: forget it without touching the arena
      std::mem::drop(r);
    }
  }
  crate::crashguard::clear_case();
}

/// after any history, clear() and a continuation behave like the continuation on a fresh arena
fn c17_clear(run: &Run, cfg: &Cfg, hist_alpha: &[Op], hd: usize, cont_alpha: &[Op], cd: usize) {
  let spec = Spec { alphabet: vec![], depth: hd + 1 + cd, oracles: O_REWIND, sync: true, unsync: true, diff: false, diff_prop: "C17" };
  let st = Start::fresh();
  let mut pair = Pair::new(cfg, &st, &spec);
  let mut fresh = Pair::new(cfg, &st, &spec);
  let nh = hist_alpha.len();
  let nc = cont_alpha.len();
  let mut hidx = vec![0usize; hd];
  'hist: loop {
    let h: Vec<Op> = hidx.iter().map(|i| hist_alpha[*i]).collect();
    let mut cidx = vec![0usize; cd];
    let mut hist_cut: Option<usize> = None;
    'cont: loop {
      let c: Vec<Op> = cidx.iter().map(|i| cont_alpha[*i]).collect();
      let mut word = h.clone();
      word.push(Op::Clear);
      word.extend(c.iter().cloned());
      crate::crashguard::set_case(crate::crashguard::head_of(&json!({"engine": "hist", "tag": "C17", "cfg": cfg, "start": st, "word": word, "oracles": O_REWIND, "sync": true, "unsync": true, "diff": false})));
      let out = pair.run_word(&st, &word, &spec, 0);
      run.eval(1);
      run.trans(out.executed as u64);
      if let Some(k) = out.disabled_at {
        if k < hd {
          hist_cut = Some(k);
          break 'cont;
        }
      }
      for (k, fl, v) in &out.viol {
        viol(run, "C17", &v.class, format!("[{} {:?} history {}] step {}: {}", fl, cfg, word_str(&word), k, v.msg), json!({"engine": "hist", "cfg": cfg, "start": st, "word": word[..(*k + 1).min(word.len())].to_vec(), "oracles": O_REWIND, "sync": true, "unsync": true, "diff": false}));
      }
      if out.viol.is_empty() && out.executed > hd {
        // continuation on a fresh arena with the minimum segment size in force
        let m = out.obs_sync[hd].min_seg;
        let mut w2 = vec![Op::SetMin(m)];
        w2.extend(c.iter().cloned());
        let o2 = fresh.run_word(&st, &w2, &spec, 0);
        let n = (out.executed - hd - 1).min(o2.executed.saturating_sub(1));
        for k in 0..n {
          for (a, b, fl) in [(&out.obs_sync, &o2.obs_sync, "sync"), (&out.obs_unsync, &o2.obs_unsync, "unsync")] {
            if a[hd + 1 + k] != b[1 + k] {
              viol(run, "C17", &format!("clear-not-pristine:{}", op_class(&c[k])), format!("[{} {:?}] after '{}' + clear, continuation '{}' step {}: {:?}; on a fresh arena: {:?}", fl, cfg, word_str(&h), word_str(&c), k, a[hd + 1 + k], b[1 + k]), json!({"engine": "c17-clear", "cfg": cfg, "history": h, "continuation": c}));
            }
          }
          run.states.insert(hash_of(&(cfg, &out.obs_sync[hd + 1 + k])));
        }
        if out.disabled_at.is_some() != o2.disabled_at.is_some() {
          viol(run, "C17", "clear-not-pristine:enabledness", format!("[{:?}] after '{}' + clear, continuation '{}' is enabled differently than on a fresh arena", cfg, word_str(&h), word_str(&c)), json!({"engine": "c17-clear", "cfg": cfg, "history": h, "continuation": c}));
        }
        run.nontrivial.insert(hash_of(&(cfg, &h, &c)));
      }
      // next continuation
      let mut k = match out.disabled_at {
        Some(x) if x > hd => x - hd - 1,
        _ => cd - 1,
      };
      for j in k + 1..cd {
        cidx[j] = 0;
      }
      loop {
        cidx[k] += 1;
        if cidx[k] < nc {
          break;
        }
        cidx[k] = 0;
        if k == 0 {
          break 'cont;
        }
        k -= 1;
      }
    }
    // next history
    let mut k = hist_cut.unwrap_or(hd - 1);
    for j in k + 1..hd {
      hidx[j] = 0;
    }
    loop {
      hidx[k] += 1;
      if hidx[k] < nh {
        break;
      }
      hidx[k] = 0;
      if k == 0 {
        break 'hist;
      }
      k -= 1;
    }
  }
}

/// clear() after the arena was shrunk, followed by growing it again: the data area of the cleared arena is that of a
/// fresh arena resized the same way (all zero); bytes written before the shrink must not come back
fn c17_clear_after_resize(run: &Run) {
  type U = unsync::Arena;
  for (backend, unify, reserved) in [(Backend::Vec, false, 0u32), (Backend::Vec, true, 5), (Backend::Anon, true, 0), (Backend::Anon, false, 5)] {
    for (small, big) in [(128usize, 384usize), (64, 256), (200, 201)] {
      for back in [0u8, 1, 2] {
        let mut cfg = Cfg::new(Fl::Optimistic, backend, unify, 256 + reserved);
        cfg.reserved = reserved;
        let case = json!({"engine": "c17-resize", "tag": "C17", "cfg": cfg, "small": small, "big": big, "back": back});
        crate::crashguard::set_case(crate::crashguard::head_of(&case));
        let r = std::panic::catch_unwind(std::panic::AssertUnwindSafe(|| -> Option<String> {
          let mut a: U = build::<U>(&cfg, None).expect("arena");
          let mut fresh: U = build::<U>(&cfg, None).expect("arena");
          let dof = a.data_offset();
          // write everywhere, then move the cursor back (top release / rewind / rewind to the start)
          let mut b = a.alloc_bytes(a.remaining() as u32).ok()?;
          let (o, c) = (b.offset(), b.capacity());
          unsafe { std::ptr::write_bytes(a.raw_mut_ptr().add(o), 0xA5, c) };
          match back {
            0 => drop(b),
            1 => {
              unsafe { b.detach() };
              drop(b);
              unsafe { a.rewind(ArenaPosition::Start((dof + 24) as u32)) };
            }
            _ => {
              unsafe { b.detach() };
              drop(b);
              unsafe { a.rewind(ArenaPosition::Start(0)) };
            }
          }
          for x in [&mut a, &mut fresh] {
            x.truncate(small.max(x.allocated())).ok()?;
          }
          unsafe { a.clear().ok()? };
          for x in [&mut a, &mut fresh] {
            x.truncate(big).ok()?;
          }
          run.eval(1);
          if a.allocated() != fresh.allocated() || a.capacity() != fresh.capacity() {
            return Some(format!("cursor / capacity {} / {} on the cleared arena, {} / {} on the fresh one", a.allocated(), a.capacity(), fresh.allocated(), fresh.capacity()));
          }
          let (da, df) = (&a.memory()[dof..], &fresh.memory()[dof..]);
          if da != df {
            let at = da.iter().zip(df.iter()).position(|(x, y)| x != y).map(|i| i + dof);
            return Some(format!("data area differs from that of a fresh arena resized the same way, first at offset {:?} (byte {:#04x})", at, at.map(|i| a.memory()[i]).unwrap_or(0)));
          }
          None
        }));
        match r {
          Ok(None) => {}
          Ok(Some(m)) => viol(run, "C17", "clear-after-resize", format!("[unsync {:?} unify={} reserved {} | fill, cursor back ({}), truncate({}), clear, truncate({})] {}", backend, unify, reserved, back, small, big, m), case),
          Err(_) => viol(run, "C17", "clear-after-resize:panicked", format!("[unsync {:?} unify={} reserved {}] panicked", backend, unify, reserved), case),
        }
        crate::crashguard::clear_case();
      }
    }
  }
}

pub fn check_c17(tier: Tier) -> i32 {
  let run = Run::new("C17", tier, "model_checking");
  let thorough = tier == Tier::Thorough;
  // (a) boundary-dense position grid in several states, all layouts/backends
  let mut cells = vec![];
  for fl in [Fl::Optimistic, Fl::None] {
    for (b, u) in [(Backend::Vec, false), (Backend::Vec, true), (Backend::Anon, true), (Backend::File, true)] {
      for reserved in [0u32, 5] {
        let mut c = Cfg::new(fl, b, u, 200 + reserved);
        c.reserved = reserved;
        cells.push(c);
      }
    }
  }
  par_for_each(&cells, |_, c| {
    c17_rewind_grid::<sync::Arena>(&run, c);
    c17_rewind_grid::<unsync::Arena>(&run, c);
  });
  // (b) rewind inside histories (oracle O_REWIND), both flavours
  use Op::*;
  use Sz::*;
  let mut alpha = vec![B(N(7)), B(N(40)), B(R), T(U64), D(0), D(1), Disc, SetMin(0), IncDisc(3)];
  for p in [Pos::Start(0), Pos::Start(50), Pos::End(0), Pos::End(10), Pos::Cur(-20), Pos::Cur(-1), Pos::Cur(8), Pos::Cur(i64::MIN), Pos::Cur(1 << 40)] {
    alpha.push(Rewind(p));
  }
  let spec = Spec { alphabet: alpha.clone(), depth: if thorough { 5 } else { 4 }, oracles: O_REWIND, sync: true, unsync: true, diff: false, diff_prop: "C17" };
  let mut hcells: Vec<Cfg> = crate::props_hist::cells(&[(Backend::Vec, false), (Backend::Vec, true), (Backend::File, true)], 225, 256);
  // every call goes through a clone of the arena value (with and without a reserved prefix, every layout)
  for (fl, b, u, reserved) in [(Fl::Optimistic, Backend::Vec, true, 0u32), (Fl::Pessimistic, Backend::Vec, false, 5), (Fl::None, Backend::Anon, true, 5), (Fl::Optimistic, Backend::File, true, 0)] {
    let mut c = Cfg::new(fl, b, u, if u || b == Backend::File { 256 } else { 225 } + reserved);
    c.reserved = reserved;
    c.via_clone = true;
    hcells.push(c);
  }
  explore(&run, &spec, &hcells, &[Start::fresh(), fragmented_starts()[1].clone(), fragmented_starts()[4].clone()], "C17");
  // (c) clear + continuation vs fresh arena
  let hist_alpha = vec![B(N(7)), B(N(40)), B(R), T(U64), TO(A16), D(0), D(1), Disc, SetMin(0), SetMin(64), IncDisc(3), Rewind(Pos::Cur(-9))];
  let cont_alpha = vec![B(N(7)), B(N(40)), B(R), T(A16), D(0), D(1), Disc, IncDisc(2)];
  let ccells: Vec<Cfg> = {
    let mut v = vec![];
    for fl in Fl::ALL {
      for (b, u) in [(Backend::Vec, false), (Backend::Vec, true), (Backend::Anon, true), (Backend::File, true), (Backend::File, false)] {
        for reserved in [0u32, 5] {
          if reserved == 5 && !thorough && b != Backend::Vec {
            continue;
          }
          let mut c = Cfg::new(fl, b, u, 225 + reserved + if u || b == Backend::File { 31 } else { 0 });
          c.reserved = reserved;
          v.push(c);
        }
      }
    }
    v
  };
  par_for_each(&ccells, |_, c| c17_clear(&run, c, &hist_alpha, if thorough { 4 } else { 3 }, &cont_alpha, if thorough { 3 } else { 2 }));
  c17_clear_after_resize(&run);
  run.sample(|| json!({"rewind_grid": "rewind(Current(i64::MAX)) with allocated 73, capacity 200 -> cursor must be 200", "clear": "history B(40) B(7) D0 SetMin(0) ; clear ; continuation B(R) D0 -> same observations as SetMin(0) B(R) D0 on a fresh arena"}));
  run.rule("(a) every ArenaPosition of a boundary-dense grid (u32 and i64 extremes, neighbours of 0 / data_offset / allocated / capacity) in 5 arena states x 16 configuration cells x 2 flavours against an i128 reference clamp; (b) every history of the stated depth containing rewinds; (c) every history x clear x every continuation compared step by step with the continuation on a fresh arena; evaluations = rewinds + histories");
  run.set("bounds", json!({"history_depth": spec.depth, "clear_history_depth": if thorough { 4 } else { 3 }, "continuation_depth": if thorough { 3 } else { 2 }}));
  run.finish()
}

// ---------------------------------------------------------------------------------------------
// C18

fn c18_cell(run: &Run, cfg: &Cfg, alphabet: &[Op], depth: usize, ns: &[usize], start: usize) {
  type U = unsync::Arena;
  let n = alphabet.len();
  let starts = [Start::fresh(), fragmented_starts()[1].clone(), fragmented_starts()[2].clone(), fragmented_starts()[4].clone()];
  for st in &starts[start..start + 1] {
    let mut idx = vec![0usize; depth];
    loop {
      let word: Vec<Op> = idx.iter().map(|i| alphabet[*i]).collect();
      // find the enabled prefix once
      let mut cut = None;
      let mut al_after = 0usize;
      {
        let mut r = Runner::<U>::new(cfg).unwrap();
        let mut v = vec![];
        for su in &st.setup {
          match su {
            Setup::Do(op) => {
              r.step(*op, 0, &mut v);
            }
            Setup::Pin(p) => r.pin(*p as usize),
          }
        }
        for (k, op) in word.iter().enumerate() {
          if r.step(*op, 0, &mut v).is_none() {
            cut = Some(k);
            break;
          }
        }
        al_after = r.a.allocated();
      }
      if cut.is_none() {
        // the grid, and the sizes that leave 0..=17 bytes behind the cursor this history ends at (where a padded
        // request fits with its payload but not with its padding)
        let mut all_ns: Vec<usize> = ns.to_vec();
        for k in 0..=17usize {
          if !all_ns.contains(&(al_after + k)) {
            all_ns.push(al_after + k);
          }
        }
        for &nn in &all_ns {
          let mut r = Runner::<U>::new(cfg).unwrap();
          let mut v = vec![];
          for su in &st.setup {
            match su {
              Setup::Do(op) => {
                r.step(*op, 0, &mut v);
              }
              Setup::Pin(p) => r.pin(*p as usize),
            }
          }
          for op in &word {
            r.step(*op, 0, &mut v);
          }
          let case = json!({"engine": "c18", "cfg": cfg, "start": st, "word": word, "n": nn});
          crate::crashguard::set_case(crate::crashguard::head_of(&case));
          // live data stays, detached: keep the records, forget the handle objects
          let lives: Vec<(Meta4, u8)> = r.all_live().map(|l| (l.m, l.pat)).collect();
          let dead = r.dead.clone();
          let min_in_force = r.min_in_force;
          let pre = r.a.snap(64);
          let img: Vec<u8> = r.a.allocated_memory().to_vec();
          let (mut arena, path) = r.into_arena();
          let res = arena.truncate(nn);
          run.eval(1);
          run.trans(1);
          let post = arena.snap(64);
          let want_cap = nn.max(pre.allocated as usize);
          let mut bad = vec![];
          if let Err(e) = &res {
            bad.push(format!("truncate({}) failed: {}", nn, e));
          }
          if arena.capacity() != want_cap {
            bad.push(format!("capacity {} expected max({}, allocated {}) ", arena.capacity(), nn, pre.allocated));
          }
          if post != pre {
            bad.push(format!("allocator state changed: {:?} -> {:?}", pre, post));
          }
          if arena.allocated_memory() != &img[..] {
            let at = arena.allocated_memory().iter().zip(img.iter()).position(|(a, b)| a != b);
            bad.push(format!("bytes below allocated() changed (first at {:?})", at));
          }
          if arena.remaining() != want_cap - pre.allocated as usize || arena.memory().len() != want_cap {
            bad.push(format!("remaining {} memory {}", arena.remaining(), arena.memory().len()));
          }
          if !bad.is_empty() {
            viol(run, "C18", &format!("truncate-effect:{}", if nn < pre.allocated as usize { "below-allocated" } else if nn < cfg.cap as usize { "shrink" } else { "grow" }), format!("[{:?} start {} history {}] truncate({}): {}", cfg, st.name, word_str(&word), nn, bad.join("; ")), case.clone());
          } else {
            // follow-up allocations: succeed exactly when they fit the new capacity (or the list serves them)
            let mut c2 = *cfg;
            c2.cap = want_cap as u32;
            let mut r2 = Runner::<U>::from_arena(&c2, arena, path);
            r2.dead = dead;
            r2.min_in_force = min_in_force;
            r2.first_alloc_done = true;
            for (m, pat) in &lives {
              r2.pinned.push(Live { h: None, m: *m, pat: *pat, needs_drop: false, owned: false, refs_delta: 0, dropped_at_write: 0 });
            }
            let rem = r2.a.remaining() as u32;
            // follow-ups rotate with the case: byte requests around the new end, and an aligned
            // request that ends exactly on the new capacity
            let exact_ab = {
              let al = r2.a.allocated() as u64;
              let start = align_up(al, 8);
              if start + 8 <= want_cap as u64 { Some((want_cap as u64 - start - 8) as u32) } else { None }
            };
            let mut fops: Vec<Op> = if nn % 2 == 0 { vec![Op::B(Sz::N(1)), Op::B(Sz::N(rem)), Op::B(Sz::N(rem + 1)), Op::B(Sz::N(33))] } else { vec![] };
            if rem <= 17 {
              // little room: each padded flavour goes first in turn (whether it fits depends on the padding)
              let padded = [Op::AB(U64, Sz::N(0)), Op::T(U64), Op::AB(A16, Sz::N(0)), Op::AB(U64, Sz::N(1)), Op::T(Ty::L(4, 4)), Op::AB(Ty::L(2, 2), Sz::N(rem.saturating_sub(2)))];
              let first = (nn + word.len()) % padded.len();
              fops = (0..padded.len()).map(|i| padded[(first + i) % padded.len()]).collect();
              fops.push(Op::B(Sz::R));
            }
            if nn % 2 == 1 {
              // every other odd size asks for the typed value first: it may fit with less than align - 1 bytes to spare
              if nn % 4 == 3 {
                fops.push(Op::T(U64));
              }
              if let Some(x) = exact_ab {
                fops.push(Op::AB(U64, Sz::N(x)));
              }
              fops.push(Op::T(U64));
              fops.push(Op::B(Sz::R));
              fops.push(Op::B(Sz::N(1)));
            }
            for fop in fops {
              let mut v = vec![];
              if r2.slots.len() >= MAX_SLOTS {
                r2.pin(0);
              }
              let _ = r2.step(fop, O_SHADOW | O_FREELIST | O_ZERO | O_ERRSTATE | O_CAPALIGN, &mut v);
              run.trans(1);
              for x in v {
                viol(run, "C18", &format!("after-truncate:{}", x.class), format!("[{:?} start {} history {} ; truncate({})] {}: {}", cfg, st.name, word_str(&word), nn, fop.short(), x.msg), case.clone());
              }
            }
            // a second truncate after these writes must again change nothing but the capacity
            let pre2 = r2.a.snap(64);
            let img2: Vec<u8> = r2.a.allocated_memory().to_vec();
            let (mut arena2, path2) = r2.into_arena();
            let n2 = want_cap + 40;
            let res2 = arena2.truncate(n2);
            run.eval(1);
            let post2 = arena2.snap(64);
            if res2.is_err() || post2 != pre2 || arena2.allocated_memory() != &img2[..] || arena2.capacity() != n2.max(pre2.allocated as usize) {
              let at = arena2.allocated_memory().iter().zip(img2.iter()).position(|(a, b)| a != b);
              viol(run, "C18", "second-truncate-effect", format!("[{:?} start {} history {} ; truncate({}) ; allocations ; truncate({})] result ok={} state {:?} -> {:?}, capacity {}, first changed byte {:?}", cfg, st.name, word_str(&word), nn, n2, res2.is_ok(), pre2, post2, arena2.capacity(), at), case.clone());
            }
            drop(arena2);
            if let Some(p) = path2 {
              let _ = std::fs::remove_file(p);
            }
            run.nontrivial.insert(hash_of(&(cfg, &st.name, &word, nn)));
          }
          run.states.insert(hash_of(&(cfg, &post, want_cap)));
        }
      }
      let mut k = cut.unwrap_or(depth - 1);
      for j in k + 1..depth {
        idx[j] = 0;
      }
      let mut done = false;
      loop {
        idx[k] += 1;
        if idx[k] < n {
          break;
        }
        idx[k] = 0;
        if k == 0 {
          done = true;
          break;
        }
        k -= 1;
      }
      if done {
        break;
      }
    }
  }
  crate::crashguard::clear_case();
}

pub fn check_c18(tier: Tier) -> i32 {
  let run = Run::new("C18", tier, "model_checking");
  let thorough = tier == Tier::Thorough;
  use Op::*;
  use Sz::*;
  let alphabet = vec![B(N(7)), B(N(40)), B(R), T(U64), D(0), D(1), F(0), Disc];
  let cap = 128u32;
  let ns: Vec<usize> = if thorough { (0..=4 * cap as usize).collect() } else { (0..=4 * cap as usize).filter(|n| n % 8 <= 1 || (*n >= 30 && *n <= 50) || (*n >= 120 && *n <= 136) || *n % 64 == 63).collect() };
  let mut cells = vec![];
  for fl in Fl::ALL {
    for (b, u) in [(Backend::Vec, false), (Backend::Vec, true), (Backend::Anon, false), (Backend::Anon, true), (Backend::File, true)] {
      cells.push(Cfg::new(fl, b, u, if u || b == Backend::File { cap + 96 } else { cap + 65 }));
    }
    // a file arena that starts at an offset of its file
    let mut c = Cfg::new(fl, Backend::File, true, cap + 96);
    c.file_offset = 4096;
    cells.push(c);
    // a reserved prefix holding the caller's bytes, on one backend per free-list kind (all three together)
    let (b, u) = match fl {
      Fl::Optimistic => (Backend::Anon, true),
      Fl::Pessimistic => (Backend::Vec, false),
      Fl::None => (Backend::File, true),
    };
    let mut c = Cfg::new(fl, b, u, if u { cap + 96 + 8 } else { cap + 65 + 5 });
    c.reserved = 5;
    cells.push(c);
    if fl == Fl::Optimistic {
      let mut c = Cfg::new(fl, Backend::Anon, false, cap + 65 + 5);
      c.reserved = 5;
      cells.push(c);
    }
  }
  let ns_light: Vec<usize> = ns.clone();
  let ns_dense: Vec<usize> = (0..=4 * cap as usize).filter(|n| n % 64 <= 1 || (*n >= 38 && *n <= 49) || (*n >= 126 && *n <= 130)).collect();
  // work items (cell, start state), spread over single-threaded child processes (every case re-maps memory: see shard.rs)
  let work: Vec<(usize, usize)> = (0..cells.len()).flat_map(|ci| (0..4).map(move |st| (ci, st))).collect();
  if crate::shard::child().is_some() {
    let work: Vec<(usize, usize)> = work.into_iter().enumerate().filter(|(i, _)| crate::shard::mine(*i)).map(|(_, w)| w).collect();
    par_for_each(&work, |_, &(ci, st)| {
      let c = &cells[ci];
      // quick: depth 3 over the boundary-dense size grid; thorough: depth 3 over every size, and depth 4 over the
      // boundary-dense grid on the plain cells
      c18_cell(&run, c, &alphabet, 3, if c.file_offset > 0 || c.reserved > 0 { &ns_light } else { &ns }, st);
      if thorough && c.file_offset == 0 && c.reserved == 0 {
        c18_cell(&run, c, &alphabet, 4, &ns_dense, st);
      }
    });
    return crate::shard::finish_child(&run);
  }
  if let Err(code) = crate::shard::run_children(&run, "C18", tier, crate::report::nthreads()) {
    return code;
  }
  // read-only arenas refuse
  for fl in Fl::ALL {
    let cfg = Cfg::new(fl, Backend::File, true, 256);
    let p = fresh_path("c18ro");
    {
      let a: unsync::Arena = build(&cfg, Some(&p)).unwrap();
      let mut b = a.alloc_bytes(40).unwrap();
      unsafe { b.detach() };
    }
    for copy in [false, true] {
      let before = std::fs::read(&p).unwrap();
      let o = cfg.options().with_read(true);
      let mut a: unsync::Arena = unsafe { if copy { o.map_copy_read_only(&p) } else { o.map(&p) } }.unwrap();
      let cap0 = a.capacity();
      for n in [0usize, 1, cap0 - 1, cap0, cap0 + 1, 512] {
        let r = a.truncate(n);
        run.eval(1);
        if r.is_ok() || a.capacity() != cap0 {
          viol(&run, "C18", "truncate-on-readonly", format!("[{:?} copy={}] truncate({}) on a read-only arena: result ok={} capacity {} -> {}", fl, copy, n, r.is_ok(), cap0, a.capacity()), json!({"engine": "c18-ro", "fl": fl, "copy": copy, "n": n}));
        }
      }
      drop(a);
      if std::fs::read(&p).unwrap() != before {
        viol(&run, "C18", "truncate-on-readonly-changed-file", format!("[{:?} copy={}] file changed", fl, copy), json!({"engine": "c18-ro", "fl": fl, "copy": copy}));
      }
    }
    let _ = std::fs::remove_file(&p);
  }
  run.sample(|| json!({"cfg": "unsync Pessimistic file-backed, capacity 224", "start": "full-2eq (free list with two segments, two live detached blocks)", "history": "B(7) D0", "truncate": 300, "follow_up": "alloc_bytes(1), alloc_bytes(remaining), alloc_bytes(remaining+1), alloc_bytes(33) checked against capacity / free-list policy / zero fill / shadow heap"}));
  {
    // resizing keeps the base address aligned to the configured maximum alignment (aligned allocations rely on it)
    let case = json!({"engine": "buf", "tag": "C18", "part": "big-alignment"});
    let (n, bad) = crate::props_buf::big_alignment_after_truncate();
    run.eval(n);
    for m in bad.into_iter().filter(|m| !m.starts_with("as created")) {
      viol(&run, "C18", "after-truncate:alignment", m, case.clone());
    }
  }
  run.rule("truncate(n) for n over the stated grid after every history of the stated depth from 4 start states x 22 configuration cells (3 free-list kinds x Vec/anon plain+unified, file, file at offset 4096, cells with a reserved prefix), histories of depth 3 (thorough: every size 0..=4*capacity, plus depth 4 on the plain cells); after each truncate four follow-up allocations under the shadow, policy, zero-fill and error-state oracles; read-only arenas must refuse; evaluations = truncate calls");
  run.set("bounds", json!({"n_values": ns.len(), "n_max": 4 * cap, "history_depth": 3, "thorough_extra": "depth 4 on the plain cells over a boundary-dense size grid"}));
  run.finish()
}

/// replay of grid cases: the grids are small, re-run the whole check without writing evidence
pub fn replay(case: &serde_json::Value) -> i32 {
  std::env::set_var("VERIF_REPLAY_MODE", "1");
  match case["engine"].as_str().unwrap_or("") {
    "c15" => check_c15(Tier::Quick),
    "c16" | "c16-sbs" => check_c16(Tier::Quick),
    "c17-clear" => check_c17(Tier::Quick),
    "c17-resize" => {
      let run = Run::new("C17", Tier::Quick, "model_checking");
      c17_clear_after_resize(&run);
      run.finish()
    }
    "c18" | "c18-ro" => check_c18(Tier::Quick),
    "c19" => check_c19(Tier::Quick),
    e => {
      eprintln!("machinery: unknown engine {e}");
      2
    }
  }
}
