//! File-backed properties: C09 (open validation / read-only), C05 (reopen), C06 (crash images).
use crate::hist::*;
use crate::report::{hash_of, par_for_each, Run, Tier, Violation};
use crate::subject::*;
use rarena_allocator::verif::{self, Event, Hook};
use rarena_allocator::{sync, unsync, Allocator, ArenaPosition, Buffer, Error, Options};
use serde_json::{json, Value};
use std::cell::RefCell;
use std::path::PathBuf;

fn viol(run: &Run, prop: &str, class: &str, msg: String, case: Value) {
  run.violation(Violation { property: prop.into(), signature: format!("{}:{}", prop, class), message: msg, replay: case });
}

#[derive(Clone, Copy, Debug, PartialEq, Eq, Hash, serde::Serialize, serde::Deserialize)]
pub enum Mode {
  MapMut,
  MapCopy,
  Map,
  MapCopyRo,
  /// the same four through the `*_with_path_builder` entry points
  MapMutPb,
  MapCopyPb,
  MapPb,
  MapCopyRoPb,
}
impl Mode {
  pub const ALL: [Mode; 4] = [Mode::MapMut, Mode::MapCopy, Mode::Map, Mode::MapCopyRo];
  pub const PB: [Mode; 4] = [Mode::MapMutPb, Mode::MapCopyPb, Mode::MapPb, Mode::MapCopyRoPb];
  pub fn writable(self) -> bool {
    matches!(self, Mode::MapMut | Mode::MapCopy | Mode::MapMutPb | Mode::MapCopyPb)
  }
  /// writes are private to the mapping
  pub fn cow(self) -> bool {
    matches!(self, Mode::MapCopy | Mode::MapCopyPb)
  }
  pub fn shared(self) -> bool {
    matches!(self, Mode::MapMut | Mode::MapMutPb)
  }
}

/// capacity given to the reopen: absent / same / larger
#[derive(Clone, Copy, Debug, PartialEq, Eq, Hash, serde::Serialize, serde::Deserialize)]
pub enum CapOpt {
  Absent,
  Same,
  Plus64,
  /// smaller than the file (just above the header): only given to opens that must be refused
  Smaller,
}

pub fn open_opts(cfg: &Cfg, cap: CapOpt, create: bool) -> Options {
  let o = cfg.options().with_read(true).with_write(true).with_create(create);
  match cap {
    CapOpt::Absent => o.maybe_capacity(None),
    CapOpt::Same => o,
    CapOpt::Plus64 => o.with_capacity(cfg.cap + 64),
    CapOpt::Smaller => o.with_capacity(cfg.data_offset() as u32 + 16),
  }
}

pub fn open<A: Subject>(p: &PathBuf, o: Options, mode: Mode) -> std::io::Result<A> {
  unsafe {
    match mode {
      Mode::MapMut => o.map_mut::<A, _>(p),
      Mode::MapCopy => o.map_copy::<A, _>(p),
      Mode::Map => o.map::<A, _>(p),
      Mode::MapCopyRo => o.map_copy_read_only::<A, _>(p),
      Mode::MapMutPb => o.map_mut_with_path_builder::<A, _, ()>(|| Ok(p.clone())).map_err(|e| e.right().unwrap()),
      Mode::MapCopyPb => o.map_copy_with_path_builder::<A, _, ()>(|| Ok(p.clone())).map_err(|e| e.right().unwrap()),
      Mode::MapPb => o.map_with_path_builder::<A, _, ()>(|| Ok(p.clone())).map_err(|e| e.right().unwrap()),
      Mode::MapCopyRoPb => o.map_copy_read_only_with_path_builder::<A, _, ()>(|| Ok(p.clone())).map_err(|e| e.right().unwrap()),
    }
  }
}

/// A valid arena file with live data, a free segment and non-zero stale bytes above the cursor.
fn valid_file<A: Subject>(cfg: &Cfg, p: &PathBuf) -> u32 {
  let a: A = build(cfg, Some(p)).expect("create file arena");
  if cfg.reserved > 0 {
    for (i, b) in unsafe { a.reserved_slice_mut() }.iter_mut().enumerate() {
      *b = 0xE0 | i as u8;
    }
  }
  let fillh = |n: u32, pat: u8| {
    let mut b = a.alloc_bytes(n).unwrap();
    unsafe { b.detach() };
    let m = meta_of(&b);
    unsafe { std::ptr::write_bytes(a.raw_mut_ptr().add(m.0), pat, m.1) };
    m
  };
  let x = fillh(40, 0xA1);
  let _y = fillh(24, 0xA2);
  let z = fillh(a.remaining() as u32, 0xA3);
  unsafe { a.dealloc(x.2 as u32, x.3 as u32) };
  unsafe { a.rewind(ArenaPosition::Start(z.0 as u32 + 8)) };
  a.increase_discarded(3);
  let cur = a.allocated() as u32;
  drop(a);
  cur
}

// ---------------------------------------------------------------------------------------------
// C09

/// reference decision: does any identification field differ from what the caller expects?
fn mismatch(id: &[u8], writable: bool, expect_fl: Fl, expect_magic: u16) -> bool {
  let fl = id[1];
  let fl_ok = fl <= 2 && (!writable || fl == expect_fl.to() as u8);
  let text_ok = &id[2..4] == b"al";
  let magic_ok = u16::from_le_bytes([id[4], id[5]]) == expect_magic;
  let ver_ok = u16::from_le_bytes([id[6], id[7]]) == 0;
  !(fl_ok && text_ok && magic_ok && ver_ok)
}

#[allow(clippy::too_many_arguments)]
fn c09_try<A: Subject>(run: &Run, bytes: &[u8], p: &PathBuf, cfg: &Cfg, mode: Mode, capo: CapOpt, expect_fl: Fl, expect_magic: u16, what: &str, judge_accept: bool) {
  c09_try_c::<A>(run, bytes, p, cfg, mode, capo, expect_fl, expect_magic, what, judge_accept, false)
}

#[allow(clippy::too_many_arguments)]
fn c09_try_c<A: Subject>(run: &Run, bytes: &[u8], p: &PathBuf, cfg: &Cfg, mode: Mode, capo: CapOpt, expect_fl: Fl, expect_magic: u16, what: &str, judge_accept: bool, create: bool) {
  std::fs::write(p, bytes).unwrap();
  let mut c = *cfg;
  c.fl = expect_fl;
  c.magic = expect_magic;
  let o = open_opts(&c, capo, create);
  let r = std::panic::catch_unwind(std::panic::AssertUnwindSafe(|| open::<A>(p, o, mode)));
  run.eval(1);
  run.trans(1);
  // the arena window starts at `file_offset` of the file
  let foff = cfg.file_offset as usize;
  let prefix = foff + cfg.data_offset();
  let too_small = bytes.len() < prefix;
  let must_fail = too_small || mismatch(&bytes[foff + cfg.reserved as usize..foff + cfg.reserved as usize + 8], mode.writable(), expect_fl, expect_magic);
  let case = json!({"engine": "c09", "flavour": A::FLAVOUR, "cfg": cfg, "mode": mode, "cap": capo, "create": create, "expect_fl": expect_fl, "expect_magic": expect_magic, "what": what, "file_len": bytes.len()});
  let class_what = what.split(' ').next().unwrap_or("");
  match r {
    Err(_) => viol(run, "C09", &format!("open-panicked:{}:{:?}", class_what, mode), format!("[{} {:?} {:?}] open of file ({}) panicked", A::FLAVOUR, mode, capo, what), case),
    Ok(Ok(a)) => {
      if must_fail {
        viol(run, "C09", &format!("accepted-mismatch:{}:{:?}", class_what, mode), format!("[{} {:?} {:?} expecting {:?}/magic {}] file ({}) was accepted", A::FLAVOUR, mode, capo, expect_fl, expect_magic, what), case.clone());
      }
      drop(a);
      if !mode.shared() {
        let after = std::fs::read(p).unwrap();
        if after.len() < bytes.len() || after[..bytes.len()] != bytes[..] {
          viol(run, "C09", &format!("non-writing-open-changed-file:{:?}", mode), format!("[{} {:?}] file ({}) changed by a copy-on-write / read-only open", A::FLAVOUR, mode, what), case);
        }
      }
    }
    Ok(Err(e)) => {
      let after = std::fs::read(p).unwrap();
      let n = bytes.len().min(after.len());
      if after.len() < bytes.len() || after[..n] != bytes[..n] {
        let ch = bytes.iter().zip(after.iter()).filter(|(a, b)| a != b).count();
        viol(run, "C09", &format!("refused-open-altered-file:{:?}", mode), format!("[{} {:?} {:?} expecting {:?}/magic {}] open of file ({}) was refused ({}) but {} of its bytes changed (len {} -> {})", A::FLAVOUR, mode, capo, expect_fl, expect_magic, what, e, ch, bytes.len(), after.len()), case.clone());
      }
      if !must_fail && judge_accept {
        viol(run, "C09", &format!("refused-valid:{}:{:?}", class_what, mode), format!("[{} {:?} {:?}] valid file ({}) refused: {}", A::FLAVOUR, mode, capo, what, e), case);
      }
    }
  }
}

fn c09_files<A: Subject>(run: &Run, cfg: &Cfg, thorough: bool) {
  let src = fresh_path("c09src");
  let cur = valid_file::<A>(cfg, &src);
  let good = std::fs::read(&src).unwrap();
  let _ = std::fs::remove_file(&src);
  let p = fresh_path("c09");
  let foff = cfg.file_offset as usize;
  let r0 = foff + cfg.reserved as usize;
  crate::crashguard::set_case(crate::crashguard::head_of(&json!({"engine": "c09", "tag": "C09", "cfg": cfg, "flavour": A::FLAVOUR})));
  let expects: Vec<(Fl, u16)> = {
    let mut v = vec![(cfg.fl, cfg.magic), (cfg.fl, cfg.magic + 1)];
    for f in Fl::ALL {
      if f != cfg.fl {
        v.push((f, cfg.magic));
      }
    }
    v
  };
  // the valid file itself, all variants
  for mode in Mode::ALL {
    for capo in [CapOpt::Absent, CapOpt::Same, CapOpt::Plus64] {
      for (efl, em) in &expects {
        c09_try::<A>(run, &good, &p, cfg, mode, capo, *efl, *em, "valid file", true);
      }
    }
  }
  // the path-builder entry points behave like their plain twins
  for mode in Mode::PB {
    for capo in [CapOpt::Absent, CapOpt::Same] {
      for (efl, em) in &expects {
        c09_try::<A>(run, &good, &p, cfg, mode, capo, *efl, *em, "valid file", true);
        let mut b = good.clone();
        b[r0 + 2] ^= 0x20;
        c09_try::<A>(run, &b, &p, cfg, mode, capo, *efl, *em, "id-byte+2 flipped (path builder)", true);
      }
    }
  }
  // open flags: a read-only open ignores create / truncate / append, create_new on an existing file is refused
  for (mode, flags) in [(Mode::Map, "truncate"), (Mode::Map, "append"), (Mode::Map, "create"), (Mode::Map, "all"), (Mode::MapCopyRo, "truncate"), (Mode::MapCopyRo, "append"), (Mode::MapCopyRo, "all"), (Mode::MapMut, "create"), (Mode::MapCopy, "create"), (Mode::MapMut, "create_new"), (Mode::MapCopy, "create_new"), (Mode::Map, "create_new"), (Mode::MapMut, "create+create_new"), (Mode::MapCopy, "create+create_new"), (Mode::Map, "create+create_new")] {
    for (bytes, what) in [(good.clone(), "valid file"), ({ let mut b = good.clone(); b[r0 + 4] ^= 1; b }, "id-byte+4 flipped")] {
      for capo in [CapOpt::Absent, CapOpt::Same] {
        std::fs::write(&p, &bytes).unwrap();
        let mut o = open_opts(cfg, capo, false);
        o = match flags {
          "truncate" => o.with_truncate(true),
          "append" => o.with_append(true),
          "create" => o.with_create(true),
          "create_new" => o.with_create_new(true),
          "create+create_new" => o.with_create(true).with_create_new(true),
          _ => o.with_truncate(true).with_append(true).with_create(true),
        };
        let r = std::panic::catch_unwind(std::panic::AssertUnwindSafe(|| open::<A>(&p, o, mode).map(|a| drop(a))));
        run.eval(1);
        let after = std::fs::read(&p).unwrap();
        let case = json!({"engine": "c09", "flavour": A::FLAVOUR, "cfg": cfg, "mode": mode, "flags": flags, "what": what});
        let valid = what == "valid file";
        let want_ok = valid && !(flags.ends_with("create_new") && mode.writable());
        let ok = matches!(r, Ok(Ok(())));
        if r.is_err() {
          viol(run, "C09", &format!("open-panicked:flags-{}:{:?}", flags, mode), format!("[{} {:?} flags {}] open of {} panicked", A::FLAVOUR, mode, flags, what), case.clone());
        }
        if ok && !valid {
          viol(run, "C09", &format!("accepted-mismatch:flags-{}:{:?}", flags, mode), format!("[{} {:?} flags {}] {} accepted", A::FLAVOUR, mode, flags, what), case.clone());
        }
        if !ok && want_ok {
          viol(run, "C09", &format!("refused-valid:flags-{}:{:?}", flags, mode), format!("[{} {:?} flags {}] valid file refused: {:?}", A::FLAVOUR, mode, flags, r.map(|x| x.map_err(|e| e.to_string()))), case.clone());
        }
        // a refused open, and every read-only open, leaves the bytes that were in the file alone
        if (!ok || !mode.writable()) && (after.len() < bytes.len() || after[..bytes.len()] != bytes[..]) {
          viol(run, "C09", &format!("{}-open-altered-file:flags-{}:{:?}", if ok { "read-only" } else { "refused" }, flags, mode), format!("[{} {:?} {:?} flags {}] {}: file changed (len {} -> {})", A::FLAVOUR, mode, capo, flags, what, bytes.len(), after.len()), case);
        }
      }
    }
  }
  // (a) every identification byte x every value
  for i in 0..8 {
    for v in 0..=255u8 {
      if good[r0 + i] == v {
        continue;
      }
      let mut b = good.clone();
      b[r0 + i] = v;
      let what = format!("id-byte+{} = {:#04x} (was {:#04x}), cursor {}", i, v, good[r0 + i], cur);
      for mode in Mode::ALL {
        let caps: &[CapOpt] = if thorough || v < 4 || v > 252 { &[CapOpt::Absent, CapOpt::Same, CapOpt::Plus64] } else { &[CapOpt::Same] };
        for capo in caps {
          let ex: &[(Fl, u16)] = if thorough || v < 4 { &expects } else { &expects[..1] };
          for (efl, em) in ex {
            // byte +0 is not part of any check: accepted or not is not judged
            c09_try::<A>(run, &b, &p, cfg, mode, *capo, *efl, *em, &what, i != 0);
          }
        }
        if i != 0 && (thorough || v < 4 || v > 252 || v % 16 == 5) {
          // a refused open that names a capacity below the length of the file must not cut the file either
          c09_try::<A>(run, &b, &p, cfg, mode, CapOpt::Smaller, cfg.fl, cfg.magic, &what, true);
        }
      }
    }
    run.states.insert(hash_of(&(A::SYNC, cfg, i)));
    run.nontrivial.insert(hash_of(&(A::SYNC, cfg, i)));
  }
  // (a') the same file as a crash between the two steps of a removal would leave it (head node marked, still
  // linked): a refused open must not run any repair on it
  {
    let hoff = ((r0 + 7) & !7) + 8;
    let sentinel = u64::from_le_bytes(good[hoff..hoff + 8].try_into().unwrap());
    let next = (sentinel & 0xffff_ffff) as usize;
    if next != 0 && next != u32::MAX as usize && foff + next + 8 <= good.len() {
      let mut marked = good.clone();
      for b in &mut marked[foff + next + 4..foff + next + 8] {
        *b = 0;
      }
      for i in 1..8 {
        let mut b = marked.clone();
        b[r0 + i] ^= 0x10;
        let what = format!("interrupted-removal file, id-byte+{} flipped", i);
        for mode in Mode::ALL {
          for capo in [CapOpt::Absent, CapOpt::Same, CapOpt::Plus64] {
            c09_try::<A>(run, &b, &p, cfg, mode, capo, cfg.fl, cfg.magic, &what, true);
          }
        }
      }
      // expecting another free-list kind / magic version than the (intact) identification bytes say
      for (efl, em) in expects.iter().skip(1) {
        for mode in Mode::ALL {
          c09_try::<A>(run, &marked, &p, cfg, mode, CapOpt::Same, *efl, *em, "interrupted-removal file, other expectation", true);
          c09_try::<A>(run, &marked, &p, cfg, mode, CapOpt::Smaller, *efl, *em, "interrupted-removal file, other expectation", true);
        }
      }
    }
  }
  // (b) truncation to every length up to a little beyond the header
  let mut lens: Vec<usize> = (foff..=foff + cfg.data_offset() + 8).collect();
  if foff > 0 {
    lens.extend([0, 1, foff - 1]);
  }
  for len in lens {
    let b = good[..len].to_vec();
    let what = format!("truncated to {} bytes (prefix {})", len, cfg.data_offset());
    for mode in Mode::ALL {
      for capo in [CapOpt::Absent, CapOpt::Same] {
        // a cut inside the data area leaves a cursor beyond the file: not judged for acceptance
        c09_try::<A>(run, &b, &p, cfg, mode, capo, cfg.fl, cfg.magic, &what, false);
        if mode.writable() {
          // `create` on a file that exists does not make it a new file
          c09_try_c::<A>(run, &b, &p, cfg, mode, capo, cfg.fl, cfg.magic, &format!("{} (create flag)", what), false, true);
        }
      }
    }
  }
  // (c) arbitrary small files
  for len in 0..=64usize {
    for fill in [0x00u8, 0xFF, 0x5A] {
      let b = vec![fill; len];
      let what = format!("arbitrary {} bytes of {:#04x}", len, fill);
      for mode in Mode::ALL {
        for capo in [CapOpt::Absent, CapOpt::Same] {
          if len >= r0 + 8 {
            c09_try::<A>(run, &b, &p, cfg, mode, capo, cfg.fl, cfg.magic, &what, false);
            if mode.writable() {
              c09_try_c::<A>(run, &b, &p, cfg, mode, capo, cfg.fl, cfg.magic, &format!("{} (create flag)", what), false, true);
            }
          } else {
            // too short even for the identification bytes: must be refused
            for create in [false, true] {
              if create && !mode.writable() {
                continue;
              }
              let must = std::panic::catch_unwind(std::panic::AssertUnwindSafe(|| {
                std::fs::write(&p, &b).unwrap();
                open::<A>(&p, open_opts(cfg, capo, create), mode).is_ok()
              }));
              run.eval(1);
              if must.unwrap_or(true) || std::fs::read(&p).unwrap() != b {
                viol(run, "C09", &format!("short-file:{:?}{}", mode, if create { ":create" } else { "" }), format!("[{} {:?} {:?} create={}] file ({}) accepted, panicked or altered", A::FLAVOUR, mode, capo, create, what), json!({"engine": "c09", "flavour": A::FLAVOUR, "cfg": cfg, "what": what}));
              }
            }
          }
        }
      }
    }
  }
  // valid identification bytes with a garbage cursor: must not crash, a refusal must not alter
  for cursor in [0u32, 1, cfg.cap + 1, u32::MAX] {
    let mut b = good.clone();
    let hoff = ((r0 + 7) & !7) + 8 + 8;
    b[hoff..hoff + 4].copy_from_slice(&cursor.to_le_bytes());
    let what = format!("garbage-cursor {}", cursor);
    for mode in Mode::ALL {
      c09_try::<A>(run, &b, &p, cfg, mode, CapOpt::Same, cfg.fl, cfg.magic + 1, &what, false);
    }
  }
  crate::crashguard::clear_case();
  let _ = std::fs::remove_file(&p);
}

/// read-only sessions: every history of depth <= d over the safe mutating API
fn c09_readonly<A: Subject>(run: &Run, cfg: &Cfg, depth: usize) {
  let p = fresh_path("c09ro");
  let _ = valid_file::<A>(cfg, &p);
  let before = std::fs::read(&p).unwrap();
  #[derive(Clone, Copy, Debug, serde::Serialize)]
  enum RoOp {
    B(u32),
    BO(u32),
    AB(u32),
    Disc,
    IncDisc(u32),
    SetMin(u32),
    RemoveOnDrop,
    Flush,
    FlushRange,
    FlushAsync,
    Clear,
  }
  let ops = [RoOp::B(1), RoOp::B(0), RoOp::BO(8), RoOp::AB(4), RoOp::Disc, RoOp::IncDisc(3), RoOp::SetMin(5), RoOp::RemoveOnDrop, RoOp::Flush, RoOp::FlushRange, RoOp::FlushAsync, RoOp::Clear];
  let n = ops.len();
  for mode in [Mode::Map, Mode::MapCopyRo] {
    let mut idx = vec![0usize; depth];
    loop {
      let word: Vec<RoOp> = idx.iter().map(|i| ops[*i]).collect();
      let case = json!({"engine": "c09-ro", "tag": "C09", "flavour": A::FLAVOUR, "cfg": cfg, "mode": mode, "ops": word});
      crate::crashguard::set_case(crate::crashguard::head_of(&case));
      let a: A = open::<A>(&p, open_opts(cfg, CapOpt::Same, false), mode).expect("read-only open of a valid file");
      let (d0, m0, al0) = (a.discarded(), a.minimum_segment_size(), a.allocated());
      if !a.read_only() {
        viol(run, "C09", "read-only-flag", format!("[{} {:?}] read_only() is false", A::FLAVOUR, mode), case.clone());
      }
      for op in &word {
        let r = std::panic::catch_unwind(std::panic::AssertUnwindSafe(|| -> Result<(), String> {
          match *op {
            RoOp::B(k) => match a.alloc_bytes(k) {
              Err(Error::ReadOnly) => Ok(()),
              Ok(b) if b.capacity() == 0 && k == 0 => Ok(()),
              other => Err(format!("alloc_bytes({}) -> {:?}", k, other.map(|b| meta_of(&b)))),
            },
            RoOp::BO(k) => match a.alloc_bytes_owned(k) {
              Err(Error::ReadOnly) => Ok(()),
              other => Err(format!("alloc_bytes_owned({}) -> {:?}", k, other.map(|b| meta_of(&b)))),
            },
            RoOp::AB(k) => match a.alloc_aligned_bytes::<u64>(k) {
              Err(Error::ReadOnly) => Ok(()),
              other => Err(format!("alloc_aligned_bytes::<u64>({}) -> {:?}", k, other.map(|b| meta_of(&b)))),
            },
            RoOp::Disc => match a.discard_freelist() {
              Err(Error::ReadOnly) => Ok(()),
              other => Err(format!("discard_freelist -> {:?}", other)),
            },
            RoOp::IncDisc(k) => {
              a.increase_discarded(k);
              Ok(())
            }
            RoOp::SetMin(k) => {
              a.set_minimum_segment_size(k);
              Ok(())
            }
            RoOp::RemoveOnDrop => {
              a.remove_on_drop(false);
              Ok(())
            }
            RoOp::Flush => {
              let _ = a.flush();
              Ok(())
            }
            RoOp::FlushRange => {
              let _ = a.flush_range(0, 16);
              let _ = a.flush_header_and_range(32, 8);
              Ok(())
            }
            RoOp::FlushAsync => {
              let _ = a.flush_async();
              Ok(())
            }
            RoOp::Clear => match unsafe { a.clear() } {
              Err(Error::ReadOnly) => Ok(()),
              other => Err(format!("clear -> {:?}", other)),
            },
          }
        }));
        run.trans(1);
        match r {
          Ok(Ok(())) => {}
          Ok(Err(m)) => viol(run, "C09", &format!("read-only-not-refused:{:?}", op).split('(').next().unwrap().to_string(), format!("[{} {:?}] {}", A::FLAVOUR, mode, m), case.clone()),
          // a documented panic would be acceptable; none of these calls documents one
          Err(_) => viol(run, "C09", &format!("read-only-panicked:{:?}", op).split('(').next().unwrap().to_string(), format!("[{} {:?}] {:?} panicked", A::FLAVOUR, mode, op), case.clone()),
        }
      }
      if a.discarded() != d0 || a.minimum_segment_size() != m0 || a.allocated() != al0 {
        viol(run, "C09", "read-only-state-changed", format!("[{} {:?} ops {:?}] discarded {} -> {}, minimum segment size {} -> {}, allocated {} -> {}", A::FLAVOUR, mode, word, d0, a.discarded(), m0, a.minimum_segment_size(), al0, a.allocated()), case.clone());
      }
      drop(a);
      run.eval(1);
      if std::fs::read(&p).unwrap() != before {
        viol(run, "C09", "read-only-session-changed-file", format!("[{} {:?} ops {:?}] the file changed", A::FLAVOUR, mode, word), case.clone());
        std::fs::write(&p, &before).unwrap();
      }
      run.states.insert(hash_of(&(A::SYNC, cfg.fl, mode, &idx)));
      run.nontrivial.insert(hash_of(&(A::SYNC, cfg.fl, mode, &idx)));
      let mut k = depth - 1;
      loop {
        idx[k] += 1;
        if idx[k] < n {
          break;
        }
        idx[k] = 0;
        if k == 0 {
          crate::crashguard::clear_case();
          break;
        }
        k -= 1;
      }
      if idx.iter().all(|i| *i == 0) {
        break;
      }
    }
  }
  crate::crashguard::clear_case();
  let _ = std::fs::remove_file(&p);
}

pub fn check_c09(tier: Tier) -> i32 {
  let run = Run::new("C09", tier, "fault_enumeration");
  let thorough = tier == Tier::Thorough;
  let mut cells = vec![];
  let reserveds: Vec<u32> = if thorough { vec![0, 5, 8, 13, 40] } else { vec![0, 5] };
  for fl in Fl::ALL {
    for reserved in &reserveds {
      let mut c = Cfg::new(fl, Backend::File, true, 200 + reserved);
      c.reserved = *reserved;
      c.magic = 0x0102;
      cells.push(c);
    }
  }
  let mut items: Vec<(Cfg, bool, u8)> = cells.iter().flat_map(|c| [(*c, true, 0u8), (*c, false, 0), (*c, true, 1), (*c, false, 1)]).collect();
  // arenas that start at a page-aligned offset of their file: the same file mutations, applied inside the window
  for fl in Fl::ALL {
    let mut c = Cfg::new(fl, Backend::File, true, 200);
    c.magic = 0x0102;
    c.file_offset = 4096;
    items.push((c, true, 0));
    items.push((c, false, 0));
    items.push((c, true, 1));
  }
  // both tiers use the full breadth of capacity options and expectations per mutated byte; the tiers differ in
  // the reserved sizes and the depth of the read-only sessions
  let ro_depth = if thorough { 4 } else { 3 };
  let go = |(c, sync, part): &(Cfg, bool, u8)| match (part, sync) {
    (0, true) => c09_files::<sync::Arena>(&run, c, true),
    (0, false) => c09_files::<unsync::Arena>(&run, c, true),
    (_, true) => c09_readonly::<sync::Arena>(&run, c, ro_depth),
    (_, false) => c09_readonly::<unsync::Arena>(&run, c, ro_depth),
  };
  // every open maps a file: spread over single-threaded child processes (shard.rs)
  if crate::shard::child().is_some() {
    for (i, it) in items.iter().enumerate() {
      if crate::shard::mine(i) {
        go(it);
      }
    }
    return crate::shard::finish_child(&run);
  }
  if let Err(code) = crate::shard::run_children(&run, "C09", tier, items.len().min(2 * crate::report::nthreads())) {
    return code;
  }
  run.sample(|| json!({"file": "valid Optimistic arena file (capacity 200): live 24-byte block, one free segment, cursor rewound so that non-zero stale bytes lie above it", "mutant": "identification byte +4 (magic version, low byte) set to 0x03", "open": "map_mut with capacity = same, expecting the stored free-list kind and magic version", "expected": "refused, file bytes unchanged"}));
  run.rule("valid files (3 free-list kinds x reserved {0,5}; thorough {0,5,8,13,40}), plus 3 whose arena starts at file offset 4096, x [each of the 8 identification bytes x 255 other values] + every truncation length 0..=prefix+8 + arbitrary files of length 0..=64 (3 fills) + garbage cursors, x 4 open variants x capacity option x expected (free list, magic version); every refused open is compared byte for byte with the file before; read-only sessions: every sequence of <= 3 (thorough: 4) calls of the safe mutating API on map / map_copy_read_only arenas; evaluations = opens + sessions");
  run.set("bounds", json!({"files": cells.len() + 3, "readonly_session_depth": ro_depth, "capacity_options": ["absent", "same", "+64"]}));
  run.finish()
}

// ---------------------------------------------------------------------------------------------
// C05

#[allow(clippy::too_many_arguments)]
fn c05_case<A: Subject>(run: &Run, cfg: &Cfg, st: &Start, word: &[Op], cut: usize, mode: Mode, capo: CapOpt, flush: bool, create: bool) -> bool {
  c05_case_t::<A>(run, cfg, st, word, cut, mode, capo, flush, create, false)
}

/// `trunc`: the (unsync) arena is resized with `truncate` before the history starts, so that everything the
/// history does goes through the mapping that `truncate` set up
#[allow(clippy::too_many_arguments)]
fn c05_case_t<A: Subject>(run: &Run, cfg: &Cfg, st: &Start, word: &[Op], cut: usize, mode: Mode, capo: CapOpt, flush: bool, create: bool, trunc: bool) -> bool {
  let case = json!({"engine": "c05", "tag": "C05", "flavour": A::FLAVOUR, "cfg": cfg, "start": st, "word": word, "cut": cut, "mode": mode, "cap": capo, "flush": flush, "create": create, "trunc": trunc});
  crate::crashguard::set_case(crate::crashguard::head_of(&case));
  let bad = |class: &str, msg: String| viol(run, "C05", class, format!("[{} {:?} start {} history {}{} | close{} + reopen {:?} {:?}{} | {}] {}", A::FLAVOUR, cfg.fl, st.name, if trunc { "truncate(capacity + 48) " } else { "" }, word_str(&word[..cut]), if flush { "(flush)" } else { "" }, mode, capo, if create { " create" } else { "" }, word_str(&word[cut..]), msg), case.clone());
  let mut r = Runner::<A>::new(cfg).unwrap();
  let mut twin = Runner::<A>::new(cfg).unwrap();
  let mut cfgv = *cfg;
  if trunc {
    cfgv.cap += 48;
    let mut grown = vec![];
    for x in [r, twin] {
      let mif = x.min_in_force;
      let (mut arena, path) = x.into_arena();
      match arena.truncate_(cfgv.cap as usize) {
        Some(Ok(())) if arena.capacity() == cfgv.cap as usize => {}
        other => {
          bad("truncate-before-history", format!("truncate({}) on the new arena: {:?}, capacity {}", cfgv.cap, other.map(|r| r.map_err(|e| e.to_string())), arena.capacity()));
          return true;
        }
      }
      let mut g = Runner::<A>::from_arena(&cfgv, arena, path);
      g.min_in_force = mif;
      grown.push(g);
    }
    twin = grown.pop().unwrap();
    r = grown.pop().unwrap();
  }
  let cfg = &cfgv;
  let mut v = vec![];
  for su in &st.setup {
    match su {
      Setup::Do(op) => {
        r.step(*op, 0, &mut v);
        twin.step(*op, 0, &mut v);
      }
      Setup::Pin(p) => {
        r.pin(*p as usize);
        twin.pin(*p as usize);
      }
    }
  }
  for op in &word[..cut] {
    if r.step(*op, 0, &mut v).is_none() {
      return false;
    }
    twin.step(*op, 0, &mut v);
  }
  // ---- close
  let pre = r.a.snap(64);
  // the free-list kind has no accessor: it is read from the Debug rendering of the arena
  fn kind_of<A: Subject>(a: &A) -> String {
    let s = format!("{:?}", a);
    s.split("freelist: ").nth(1).map(|t| t.chars().take_while(|c| c.is_alphanumeric()).collect()).unwrap_or_default()
  }
  let tuple = (r.a.allocated(), r.a.discarded(), r.a.data_offset(), r.a.minimum_segment_size(), r.a.magic_version(), r.a.version(), kind_of(r.a));
  let img: Vec<u8> = r.a.allocated_memory().to_vec();
  let lives: Vec<(Meta4, u8)> = r.all_live().map(|l| (l.m, l.pat)).collect();
  let dead = r.dead.clone();
  // the minimum segment size set before closing is stored in the file and stays in force after the reopen
  let min_in_force = r.min_in_force;
  let (arena, path) = r.into_arena();
  let path = path.unwrap();
  if flush {
    let _ = arena.flush();
  }
  drop(arena);
  // an arena that starts at an offset of its file: the bytes in front of it, and (when the reopen names the same
  // capacity) bytes appended behind it, belong to somebody else and must survive every kind of reopen
  let foff = cfg.file_offset as usize;
  let trailer = foff > 0 && capo == CapOpt::Same;
  if foff > 0 {
    let mut f = std::fs::read(&path).unwrap();
    if f.len() < foff + cfg.cap as usize {
      bad("file-too-short", format!("file has {} bytes, arena window is [{}, {})", f.len(), foff, foff + cfg.cap as usize));
      let _ = std::fs::remove_file(&path);
      return true;
    }
    for (i, b) in f[..foff].iter_mut().enumerate() {
      *b = 0x5A ^ (i as u8);
    }
    if trailer {
      f.truncate(foff + cfg.cap as usize);
      f.extend((0..64u8).map(|i| 0xA7 ^ i));
    }
    std::fs::write(&path, &f).unwrap();
  }
  let on_disk = std::fs::read(&path).unwrap();
  // `create_new` (alone or together with `create`) never opens a file that exists, whatever else is asked
  if mode.writable() && cut % 2 == 0 {
    for both in [false, true] {
      let o = open_opts(cfg, capo, both).with_create_new(true);
      match open::<A>(&path, o, mode) {
        Ok(a) => {
          drop(a);
          bad("create-new-opened-existing-file", format!("with_create_new(true){} opened the existing file", if both { " + with_create(true)" } else { "" }));
          let _ = std::fs::remove_file(&path);
          return true;
        }
        Err(_) => {
          if std::fs::read(&path).unwrap() != on_disk {
            bad("create-new-altered-existing-file", "a refused create_new open changed the file".into());
            let _ = std::fs::remove_file(&path);
            return true;
          }
        }
      }
      run.eval(1);
    }
  }
  // ---- a look at the file through the OTHER arena flavour (read-only: nothing changes): the file format is one,
  // whoever wrote the file, so the reader sees the state the writer left
  if cut % 2 == 0 {
    fn peek<B: Subject>(path: &PathBuf, o: Options) -> Result<((usize, u32, usize, u32, u16, u16), Vec<(u32, u64)>, Vec<u8>), String> {
      let b: B = open::<B>(path, o, Mode::Map).map_err(|e| e.to_string())?;
      let s = b.snap(64);
      Ok(((b.allocated(), b.discarded(), b.data_offset(), b.minimum_segment_size(), b.magic_version(), b.version()), s.nodes.clone(), b.allocated_memory().to_vec()))
    }
    let o = open_opts(cfg, capo, false);
    let got = if A::SYNC { peek::<unsync::Arena>(&path, o) } else { peek::<sync::Arena>(&path, o) };
    run.eval(1);
    match got {
      Err(e) => bad("other-flavour-refused", format!("read-only open by the other arena flavour failed: {}", e)),
      Ok((t, nodes, bytes)) => {
        let want = (tuple.0, tuple.1, tuple.2, tuple.3, tuple.4, tuple.5);
        if t != want {
          bad("other-flavour-state-tuple", format!("(allocated, discarded, data_offset, min_segment_size, magic, version) written {:?}, read by the other arena flavour {:?}", want, t));
        } else if nodes != pre.nodes {
          bad("other-flavour-free-list", format!("free list written {:?}, read by the other arena flavour {:?}", pre.nodes, nodes));
        } else if bytes != img {
          bad("other-flavour-bytes", "bytes below the cursor differ when read by the other arena flavour".into());
        }
      }
    }
    if std::fs::read(&path).unwrap() != on_disk {
      bad("other-flavour-read-only-open-changed-file", "a read-only open by the other arena flavour changed the file".into());
    }
  }
  // ---- reopen
  // a read-only open takes the free-list kind from the file: the opener's options name another one
  let mut ocfg = *cfg;
  if !mode.writable() {
    ocfg.fl = match cfg.fl {
      Fl::None => Fl::Pessimistic,
      Fl::Optimistic => Fl::None,
      Fl::Pessimistic => Fl::Optimistic,
    };
  }
  // the minimum segment size is stored in the file: what the opener's options say about it does not matter
  if cut % 2 == 1 {
    ocfg.min_seg = if cfg.min_seg == 64 { 8 } else { 64 };
  }
  let mut o = open_opts(&ocfg, capo, create);
  if !mode.writable() && cut % 2 == 1 {
    // the read-only constructors ignore the creation flags: the options the file was created with reopen it
    o = o.with_create(true).with_create_new(true);
  }
  let a2: A = match open::<A>(&path, o, mode) {
    Ok(a) => a,
    Err(e) => {
      bad("reopen-refused", format!("reopen failed: {}", e));
      let _ = std::fs::remove_file(&path);
      return true;
    }
  };
  run.eval(1);
  let post = a2.snap(64);
  let t2 = (a2.allocated(), a2.discarded(), a2.data_offset(), a2.minimum_segment_size(), a2.magic_version(), a2.version(), kind_of(&a2));
  if t2 != tuple {
    bad("state-tuple", format!("(allocated, discarded, data_offset, min_segment_size, magic, version, freelist kind) {:?} -> {:?}", tuple, t2));
  }
  if post.nodes != pre.nodes || post.sentinel != pre.sentinel {
    bad("free-list", format!("free list {:?} -> {:?}", pre.nodes, post.nodes));
  }
  if a2.allocated() == img.len() && a2.allocated_memory() != &img[..] {
    let at = a2.allocated_memory().iter().zip(img.iter()).position(|(x, y)| x != y);
    bad("bytes-below-cursor", format!("bytes below the cursor differ after reopen (first at {:?})", at));
  }
  // a read-only mapping never extends the file: it maps min(file length, requested capacity)
  let want_cap = match capo {
    CapOpt::Plus64 if mode.writable() => cfg.cap as usize + 64,
    _ => cfg.cap as usize,
  };
  if a2.capacity() != want_cap || a2.read_only() == mode.writable() {
    bad("capacity-or-mode", format!("capacity {} (expected {}), read_only {}", a2.capacity(), want_cap, a2.read_only()));
  }
  let mut ok = true;
  if mode.writable() {
    // continue the history on the reopened arena and on the twin that was never closed
    let mut c2 = *cfg;
    c2.cap = want_cap as u32;
    let mut r2 = Runner::<A>::from_arena(&c2, Box::new(a2), None);
    r2.dead = dead;
    r2.min_in_force = min_in_force;
    r2.first_alloc_done = true;
    for (m, pat) in &lives {
      r2.pinned.push(Live { h: None, m: *m, pat: *pat, needs_drop: false, owned: false, refs_delta: 0, dropped_at_write: 0 });
    }
    // handles of the twin that the continuation could release do not exist on the reopened side:
    // the continuation only allocates / discards / sets, and releases what it allocated itself
    for l in twin.slots.drain(..).collect::<Vec<_>>() {
      twin.pinned.push(l);
    }
    let or = O_SHADOW | O_ZERO | O_FREELIST | O_DISCARDED;
    for (k, op) in word[cut..].iter().enumerate() {
      let mut v1 = vec![];
      let mut v2 = vec![];
      let o1 = r2.step(*op, or, &mut v1);
      // with a larger capacity the two sides legitimately diverge: no differential then
      let o2 = if capo == CapOpt::Plus64 { o1.clone() } else { twin.step(*op, 0, &mut v2) };
      run.trans(1);
      for x in v1 {
        bad(&format!("after-reopen:{}", x.class), format!("continuation step {} {}: {}", k, op.short(), x.msg));
        ok = false;
      }
      match (o1, o2) {
        (None, None) => break,
        (Some(a), Some(b)) => {
          if capo != CapOpt::Plus64 && a != b {
            bad(&format!("continuation-differs:{}", op_class(op)), format!("continuation step {} {}: reopened {:?} vs never closed {:?}", k, op.short(), a, b));
            ok = false;
          }
          run.states.insert(hash_of(&(cfg, &a)));
        }
        _ => {
          bad("continuation-enabledness", format!("continuation step {} {} enabled on one side only", k, op.short()));
          break;
        }
      }
      if !ok {
        break;
      }
    }
    // second cycle: close the reopened arena and open it once more
    let second = if mode.shared() && ok {
      let s = r2.a.snap(64);
      Some((s, r2.a.allocated_memory().to_vec(), r2.all_live().map(|l| (l.m, l.pat)).collect::<Vec<_>>()))
    } else {
      None
    };
    let (a2, _) = r2.into_arena();
    drop(a2);
    if let Some((s1, img1, lives1)) = second {
      let mut c2b = *cfg;
      c2b.cap = want_cap as u32;
      match open::<A>(&path, open_opts(&c2b, CapOpt::Same, false), Mode::MapMut) {
        Err(e) => bad("second-reopen-refused", format!("{}", e)),
        Ok(a3) => {
          run.eval(1);
          let s3 = a3.snap(64);
          if s3.allocated != s1.allocated || s3.discarded != s1.discarded || s3.min_segment_size != s1.min_segment_size || s3.nodes != s1.nodes {
            bad("second-cycle-state", format!("after a second close + reopen: {:?} -> {:?}", s1, s3));
          }
          if a3.allocated() == img1.len() && a3.allocated_memory() != &img1[..] {
            bad("second-cycle-bytes", "bytes below the cursor differ after a second close + reopen".into());
          }
          for (m, pat) in &lives1 {
            if m.1 > 0 && m.0 + m.1 <= a3.capacity() && a3.memory()[m.0..m.0 + m.1].iter().any(|b| b != pat) {
              bad("second-cycle-live-bytes", format!("live range [{},{}) lost its bytes over two reopen cycles", m.0, m.0 + m.1));
            }
          }
        }
      }
    }
    if mode.cow() {
      // a copy-on-write session is private: the bytes that were in the file stay as they were
      let after = std::fs::read(&path).unwrap();
      if after.len() < on_disk.len() || after[..on_disk.len()] != on_disk[..] {
        bad("copy-on-write-session-wrote-file", "the file content changed during a copy-on-write session".into());
      }
    }
  } else {
    match a2.alloc_bytes(1) {
      Err(Error::ReadOnly) => {}
      other => bad("read-only-alloc", format!("alloc_bytes(1) on a read-only reopen -> {:?}", other.map(|b| meta_of(&b)))),
    }
    for (m, pat) in &lives {
      if m.1 > 0 && a2.memory()[m.0..m.0 + m.1].iter().any(|b| b != pat) {
        bad("live-bytes-lost", format!("bytes of live range [{},{}) changed", m.0, m.0 + m.1));
      }
    }
    drop(a2);
    if std::fs::read(&path).unwrap() != on_disk {
      bad("read-only-changed-file", "file changed by a read-only session".into());
    }
  }
  if foff > 0 {
    let after = std::fs::read(&path).unwrap_or_default();
    if after.len() < foff || after[..foff] != on_disk[..foff] {
      bad("outside-window-changed", format!("the {} bytes of the file in front of the arena (file offset {}) changed", foff, foff));
    }
    let t0 = foff + cfg.cap as usize;
    if trailer && (after.len() < t0 + 64 || after[t0..t0 + 64] != on_disk[t0..t0 + 64]) {
      bad("outside-window-changed", format!("the bytes of the file behind the arena window [{}, {}) changed (file length {} -> {})", foff, t0, on_disk.len(), after.len()));
    }
  }
  run.nontrivial.insert(hash_of(&(A::SYNC, cfg, &st.name, word, cut, mode, capo)));
  let _ = std::fs::remove_file(&path);
  drop(twin);
  true
}

/// one work item: the histories of one cell from one start state whose first symbol is `first`
fn c05_cell<A: Subject>(run: &Run, cfg: &Cfg, alphabet: &[Op], depth: usize, thorough: bool, start: usize, first: usize) {
  let n = alphabet.len();
  let starts = [Start::fresh(), fragmented_starts()[1].clone(), fragmented_starts()[4].clone()];
  for st in &starts[start..start + 1] {
    let mut idx = vec![0usize; depth];
    idx[0] = first;
    loop {
      let word: Vec<Op> = idx.iter().map(|i| alphabet[*i]).collect();
      let mut disabled_at = None;
      for cut in 0..=depth {
        // the variant grid rotates with the history so that every variant meets every cut
        let h = (hash_of(&(&idx, cut)) % 24) as usize;
        let variants: Vec<(Mode, CapOpt, bool, bool)> = if thorough {
          let mut v = vec![];
          for m in Mode::ALL.iter().chain(Mode::PB.iter()) {
            for c in [CapOpt::Same, CapOpt::Absent, CapOpt::Plus64] {
              v.push((*m, c, (h + v.len()) % 2 == 0, (h + v.len()) % 3 == 0));
            }
          }
          v
        } else {
          let all8: Vec<Mode> = Mode::ALL.iter().chain(Mode::PB.iter()).cloned().collect();
          let caps = [CapOpt::Same, CapOpt::Absent, CapOpt::Plus64];
          vec![
            (if h % 4 == 0 { Mode::MapMutPb } else { Mode::MapMut }, caps[h % 3], h % 2 == 0, h % 5 == 0),
            (all8[1 + h % 7], caps[(h / 3) % 3], h % 2 == 1, false),
            (all8[(h / 2) % 8], caps[(h + 1) % 3], h % 3 == 0, h % 7 == 0),
            (all8[(3 + h) % 8], caps[(h + 2) % 3], h % 3 == 1, false),
          ]
        };
        for (k, (mode, capo, flush, create)) in variants.into_iter().enumerate() {
          // the flavour that has `truncate`: every third case first resizes the arena
          let trunc = !A::SYNC && cfg.file_offset == 0 && (h + k) % 3 == 0;
          if !c05_case_t::<A>(run, cfg, st, &word, cut, mode, capo, flush, create, trunc) {
            disabled_at = Some(cut);
            break;
          }
        }
        if disabled_at.is_some() {
          break;
        }
      }
      let mut k = match disabled_at {
        // word[..cut] contained a disabled step: the first disabled position is < cut
        Some(c) => c.saturating_sub(1).min(depth - 1),
        None => depth - 1,
      };
      for j in k + 1..depth {
        idx[j] = 0;
      }
      let mut done = false;
      loop {
        // the first symbol is fixed for this work item
        if k == 0 {
          done = true;
          break;
        }
        idx[k] += 1;
        if idx[k] < n {
          break;
        }
        idx[k] = 0;
        k -= 1;
      }
      if done {
        break;
      }
    }
  }
  crate::crashguard::clear_case();
}

pub fn check_c05(tier: Tier) -> i32 {
  let run = Run::new("C05", tier, "model_checking");
  let thorough = tier == Tier::Thorough;
  use Op::*;
  use Sz::*;
  let alphabet = vec![B(N(7)), B(N(40)), B(R), T(U64), AB(A16, N(3)), D(0), D(1), F(0), Disc, SetMin(64), IncDisc(3), Clear];
  let depth = 3;
  let mut items = vec![];
  for fl in Fl::ALL {
    for reserved in [0u32, 5] {
      for sync in [true, false] {
        // the `unify` option is irrelevant for files (always unified): alternate it over the cells
        let mut c = Cfg::new(fl, Backend::File, (reserved == 0) != sync, 256 + reserved + 3);
        c.reserved = reserved;
        // magic versions with a zero / non-zero high byte
        c.magic = if reserved == 0 { 9 } else { 0x0309 };
        items.push((c, sync));
      }
    }
  }
  // arenas that start at a page-aligned offset of their file (foreign bytes in front of and behind the window)
  let depth_off = 3;
  let mut items: Vec<(Cfg, bool, usize)> = items.into_iter().map(|(c, s)| (c, s, depth)).collect();
  for (i, fl) in Fl::ALL.into_iter().enumerate() {
    for sync in [true, false] {
      let _ = i;
      let mut c = Cfg::new(fl, Backend::File, true, 256);
      c.file_offset = 4096;
      c.magic = 9;
      items.push((c, sync, depth_off));
    }
  }
  // thorough: the plain cells once more at depth 4 (with the rotating four variants instead of all twelve)
  let mut items: Vec<(Cfg, bool, usize, bool)> = items.into_iter().map(|(c, s, d)| (c, s, d, thorough)).collect();
  if thorough {
    let deep: Vec<(Cfg, bool, usize, bool)> = items.iter().filter(|(c, ..)| c.reserved == 0 && c.file_offset == 0).map(|(c, s, _, _)| (*c, *s, 4, false)).collect();
    items.extend(deep);
  }
  let mut work = vec![];
  for (ci, _) in items.iter().enumerate() {
    for start in 0..3 {
      for first in 0..alphabet.len() {
        work.push((ci, start, first));
      }
    }
  }
  // every case maps and unmaps several files: threads of one process serialise on the address-space lock, so
  // the work list is spread over single-threaded child processes (shard.rs)
  if crate::shard::child().is_none() {
    if let Err(code) = crate::shard::run_children(&run, "C05", tier, crate::report::nthreads()) {
      return code;
    }
  } else {
    let work: Vec<(usize, usize, usize)> = work.into_iter().enumerate().filter(|(i, _)| crate::shard::mine(*i)).map(|(_, w)| w).collect();
    par_for_each(&work, |_, &(ci, start, first)| {
      let (c, sync, depth, all_variants) = &items[ci];
      if *sync {
        c05_cell::<sync::Arena>(&run, c, &alphabet, *depth, *all_variants, start, first)
      } else {
        c05_cell::<unsync::Arena>(&run, c, &alphabet, *depth, *all_variants, start, first)
      }
    });
    return crate::shard::finish_child(&run);
  }
  run.sample(|| json!({"cfg": "sync Pessimistic file arena, reserved 5", "start": "full-2eq", "history": "B(7) D0 | close (no flush) + map_mut without capacity | B(40)", "checked": "state tuple, free list, bytes below the cursor, then the continuation B(40) on the reopened arena vs. on a twin that was never closed, shadow heap carried across the reopen"}));
  run.rule("every history of depth 3 over the stated alphabet from 3 start states, cut at every position 0..=3 by close (with / without flush) + reopen; quick: 4 reopen variants per (history, cut) rotating over the 4 modes x 3 capacity options x create flag, thorough: all 24 mode x capacity variants, and the plain cells again at depth 4 with four variants; writable reopens continue the history against a never-closed twin (per-step observation equality) under the shadow / zero / policy / accounting oracles; read-only reopens must refuse allocation and leave the file untouched; 6 more cells place the arena at file offset 4096 with foreign bytes in front of and behind its window, which every reopen must leave alone; evaluations = reopens");
  run.set("bounds", json!({"depth": depth, "depth_of_offset_cells": depth_off, "alphabet": alphabet.iter().map(|o| o.short()).collect::<Vec<_>>(), "cells": items.len()}));
  run.finish()
}

// ---------------------------------------------------------------------------------------------
// C06 (E3)

#[derive(Default)]
struct CrashEng {
  base: usize,
  cap: usize,
  capture: bool,
  images: Vec<(Vec<u8>, &'static str, u32)>,
  budget: i64,
}
thread_local! {
  static CE: RefCell<CrashEng> = RefCell::new(CrashEng::default());
}
struct Budget;
struct CrashHook;
static CH: CrashHook = CrashHook;
impl Hook for CrashHook {
  fn before(&self, ev: &Event) {
    let over = CE.with(|c| {
      let mut c = c.borrow_mut();
      if c.budget >= 0 {
        if c.budget == 0 {
          return true;
        }
        c.budget -= 1;
        return false;
      }
      if c.capture {
        let img = unsafe { std::slice::from_raw_parts(c.base as *const u8, c.cap) }.to_vec();
        c.images.push((img, ev.file, ev.line));
      }
      false
    });
    if over {
      std::panic::panic_any(Budget);
    }
  }
  fn after(&self, _: &Event, _: u64, _: u64, _: bool) {}
  fn spin(&self, _: bool) {
    // a wait inside a single-threaded operation can only be a wait for something that never happens
    let over = CE.with(|c| {
      let mut c = c.borrow_mut();
      if c.budget > 0 {
        c.budget -= 1;
      }
      c.budget == 0
    });
    if over {
      std::panic::panic_any(Budget);
    }
  }
  fn plain_write(&self, _addr: usize, _len: usize) {
    CE.with(|c| {
      let mut c = c.borrow_mut();
      if c.budget < 0 && c.capture {
        let img = unsafe { std::slice::from_raw_parts(c.base as *const u8, c.cap) }.to_vec();
        c.images.push((img, "zeroing", 0));
      }
    });
  }
  fn teardown(&self, _: usize, _: usize) {}
  fn plain_written(&self, _addr: usize, _len: usize) {
    CE.with(|c| {
      let mut c = c.borrow_mut();
      if c.budget < 0 && c.capture {
        let img = unsafe { std::slice::from_raw_parts(c.base as *const u8, c.cap) }.to_vec();
        c.images.push((img, "after-zeroing", 0));
      }
    });
  }
}

/// recovery oracle on one crash image
fn recover(run: &Run, cfg: &Cfg, img: &[u8], lives: &[(Meta4, u8)], ctx: &str, at: &str, case: &Value) {
  type S = sync::Arena;
  let p = fresh_path("c06img");
  // the arena window starts at `file_offset` of the file; what lies in front of it is not the arena's
  let foff = cfg.file_offset as usize;
  if foff > 0 {
    let mut f: Vec<u8> = (0..foff).map(|i| 0x5A ^ (i as u8)).collect();
    f.extend_from_slice(img);
    std::fs::write(&p, &f).unwrap();
  } else {
    std::fs::write(&p, img).unwrap();
  }
  let bad = |class: &str, msg: String| viol(run, "C06", class, format!("[{} | crash {}] {}", ctx, at, msg), case.clone());
  // the reopen after a crash names the capacity or not, with or without the `create` flag (the file exists)
  let variant = hash_of(&(at, ctx.len(), img.len())) % 4;
  let (capo, create) = [(CapOpt::Same, false), (CapOpt::Same, true), (CapOpt::Absent, false), (CapOpt::Absent, true)][variant as usize];
  let a: S = match open::<S>(&p, open_opts(cfg, capo, create), Mode::MapMut) {
    Ok(a) => a,
    Err(e) => {
      bad("image-does-not-open", format!("{}", e));
      let _ = std::fs::remove_file(&p);
      return;
    }
  };
  run.eval(1);
  let al = a.allocated();
  if al < a.data_offset() || al > a.capacity() {
    bad("cursor-out-of-range", format!("cursor {} outside [{}, {}]", al, a.data_offset(), a.capacity()));
  }
  if a.capacity() != img.len() {
    bad("capacity-after-recovery", format!("capacity {} after the reopen ({:?}, create={}), the crashed arena had {}", a.capacity(), capo, create, img.len()));
  }
  for (m, pat) in lives {
    if m.1 > 0 && a.memory()[m.0..m.0 + m.1].iter().any(|b| b != pat) {
      bad("live-bytes-lost", format!("live range [{},{}) lost its bytes", m.0, m.0 + m.1));
    }
  }
  // a second kill right after the reopen, before any operation: the file is what the recovery pass left
  let again: Option<Vec<u8>> = if variant == 0 && !at.starts_with("a second time") { Some(a.memory().to_vec()) } else { None };
  let s = a.snap(64);
  if s.truncated || s.cyclic || s.wild {
    bad("free-list-broken", format!("free list after recovery: {:?}", s));
  }
  // probe workload: every call under an event budget
  verif::install(Some(&CH));
  let mut got: Vec<Meta4> = vec![];
  let mut hung = None;
  'probe: for round in 0..3 {
    for sz in [8u32, 24, 40, 8, 8] {
      CE.with(|c| c.borrow_mut().budget = 600);
      let r = std::panic::catch_unwind(std::panic::AssertUnwindSafe(|| a.alloc_bytes(sz).map(|mut b| {
        unsafe { b.detach() };
        meta_of(&b)
      })));
      run.trans(1);
      match r {
        Err(pl) => {
          hung = Some(if pl.is::<Budget>() { format!("alloc_bytes({}) did not finish within 600 events", sz) } else { format!("alloc_bytes({}) panicked", sz) });
          break 'probe;
        }
        Ok(Ok(m)) => {
          for (l, _) in lives {
            if m.1 > 0 && l.1 > 0 && m.0 < l.0 + l.1 && l.0 < m.0 + m.1 {
              bad("live-range-reissued", format!("alloc_bytes({}) returned [{},{}) which intersects the pre-crash live range [{},{})", sz, m.0, m.0 + m.1, l.0, l.0 + l.1));
            }
          }
          for g in &got {
            if m.1 > 0 && m.0 < g.0 + g.1 && g.0 < m.0 + m.1 {
              bad("overlap-after-recovery", format!("[{},{}) overlaps [{},{})", m.0, m.0 + m.1, g.0, g.0 + g.1));
            }
          }
          got.push(m);
        }
        Ok(Err(_)) => {}
      }
    }
    // give half of it back, then discard the list
    CE.with(|c| c.borrow_mut().budget = 3000);
    let r = std::panic::catch_unwind(std::panic::AssertUnwindSafe(|| {
      let mut k = 0;
      got.retain(|m| {
        k += 1;
        if k % 2 == 0 {
          unsafe { a.dealloc(m.2 as u32, m.3 as u32) };
          false
        } else {
          true
        }
      });
      if round == 1 {
        let _ = a.discard_freelist();
      }
    }));
    if let Err(pl) = r {
      hung = Some(if pl.is::<Budget>() { "dealloc / discard_freelist did not finish within 3000 events".into() } else { "dealloc / discard_freelist panicked".into() });
      break;
    }
  }
  CE.with(|c| c.borrow_mut().budget = -1);
  verif::install(None);
  if let Some(h) = hung {
    bad("operation-does-not-terminate", h);
  }
  drop(a);
  let _ = std::fs::remove_file(&p);
  if let Some(img2) = again {
    recover(run, cfg, &img2, lives, ctx, &format!("a second time, right after the reopen that followed the crash {}", at), case);
  }
}

fn c06_cell(run: &Run, cfg: &Cfg, alphabet: &[Op], depth: usize) {
  for start in 0..5 {
    c06_cell_from(run, cfg, alphabet, depth, start);
  }
}

fn c06_cell_from(run: &Run, cfg: &Cfg, alphabet: &[Op], depth: usize, start: usize) {
  type S = sync::Arena;
  let n = alphabet.len();
  let starts = [fragmented_starts()[1].clone(), fragmented_starts()[2].clone(), fragmented_starts()[4].clone(), Start::fresh(), fragmented_starts()[5].clone()];
  for st in &starts[start..start + 1] {
    let mut idx = vec![0usize; depth];
    loop {
      let word: Vec<Op> = idx.iter().map(|i| alphabet[*i]).collect();
      let case = json!({"engine": "c06", "tag": "C06", "cfg": cfg, "start": st, "word": word});
      crate::crashguard::set_case(crate::crashguard::head_of(&case));
      let mut r = Runner::<S>::new(cfg).unwrap();
      let mut v = vec![];
      for su in &st.setup {
        match su {
          Setup::Do(op) => {
            r.step(*op, 0, &mut v);
          }
          Setup::Pin(p) => r.pin(*p as usize),
        }
      }
      let mut cut = None;
      for (k, op) in word.iter().enumerate() {
        let last = k == depth - 1;
        // ranges live before this operation begins; the one being released by it is exempt
        let mut lives: Vec<(Meta4, u8)> = r.all_live().map(|l| (l.m, l.pat)).collect();
        if let Op::D(i) | Op::F(i) | Op::X(i) = op {
          if (*i as usize) < r.slots.len() {
            let m = r.slots[*i as usize].m;
            lives.retain(|l| l.0 != m);
          }
        }
        // clear() gives everything back: nothing is live any more once it has begun
        if let Op::Clear = op {
          lives.clear();
        }
        if last {
          let rg = r.a.ranges();
          CE.with(|c| {
            let mut c = c.borrow_mut();
            c.base = rg.base;
            c.cap = rg.cap;
            c.capture = true;
            c.images.clear();
            c.budget = -1;
          });
          verif::install(Some(&CH));
        }
        let o = r.step(*op, 0, &mut v);
        if last {
          verif::install(None);
          let mut imgs = CE.with(|c| {
            let mut c = c.borrow_mut();
            c.capture = false;
            std::mem::take(&mut c.images)
          });
          if o.is_some() {
            // crash after the last access of the operation
            imgs.push((r.a.memory().to_vec(), "after-the-operation", 0));
            let ctx = format!("{:?} start {} history {}", cfg.fl, st.name, word_str(&word));
            let total = imgs.len();
            for (i, (img, file, line)) in imgs.iter().enumerate() {
              let at = format!("before access #{} of {} ({}:{})", i, total - 1, file.rsplit('/').next().unwrap_or(file), line);
              recover(run, cfg, img, &lives, &ctx, &at, &json!({"engine": "c06", "cfg": cfg, "start": st, "word": word, "crash_index": i}));
              run.states.insert(hash_of(img));
            }
            run.nontrivial.insert(hash_of(&(cfg, &st.name, &word)));
          }
        }
        if o.is_none() {
          cut = Some(k);
          break;
        }
      }
      drop(r);
      let mut k = cut.unwrap_or(depth - 1);
      for j in k + 1..depth {
        idx[j] = 0;
      }
      let mut done = false;
      loop {
        idx[k] += 1;
        if idx[k] < n {
          break;
        }
        idx[k] = 0;
        if k == 0 {
          done = true;
          break;
        }
        k -= 1;
      }
      if done {
        break;
      }
    }
  }
  crate::crashguard::clear_case();
}

fn c06_sched_cfg(h: &crate::sched::Harness) -> Cfg {
  let mut c = Cfg::new(h.fl, Backend::File, true, h.cap);
  c.min_seg = h.min_seg;
  c
}

/// The process is killed while several threads are inside operations: every distinct memory image that occurs
/// at a scheduling point of any schedule (up to the preemption bound) of two or three concurrent operations is
/// treated as the file the kill leaves behind and put through the recovery oracle.  (The explorer's arenas are
/// Vec-backed; C16 establishes that the unified image is byte-identical to the file image.)
fn c06_concurrent(run: &Run, thorough: bool) {
  use crate::sched::{explore, ExploreCfg, Harness, ImgState, TOp, IMG};
  use TOp::*;
  let menu: Vec<Vec<TOp>> = vec![vec![B(16)], vec![B(24)], vec![DropPre(0)], vec![Discard], vec![B(16), DropOwn], vec![U64]];
  let mut items: Vec<(Harness, u8)> = vec![];
  for fl in [Fl::Optimistic, Fl::Pessimistic] {
    for shape in [3u8, 11, 19] {
      for i in 0..menu.len() {
        for j in i..menu.len() {
          let mut progs = vec![menu[i].clone(), menu[j].clone()];
          // DropPre(t) names the block of thread t: the second user of a pre-allocated block takes the other one
          if progs[0] == vec![DropPre(0)] && progs[1] == vec![DropPre(0)] {
            progs[1] = vec![DropPre(1)];
          }
          items.push((Harness { fl, unify: true, min_seg: 8, cap: 256, shape, progs, own_arenas: false, leave: 0, odd: 0, reserved: 0 }, if thorough { 4 } else { 3 }));
        }
      }
      // three threads inside operations at the kill
      let tb = if thorough { 2 } else { 1 };
      items.push((Harness { fl, unify: true, min_seg: 8, cap: 256, shape, progs: vec![vec![B(16)], vec![DropPre(0)], vec![B(24)]], own_arenas: false, leave: 0, odd: 0, reserved: 0 }, tb));
      items.push((Harness { fl, unify: true, min_seg: 8, cap: 256, shape, progs: vec![vec![B(16)], vec![DropPre(0)], vec![Discard]], own_arenas: false, leave: 0, odd: 0, reserved: 0 }, tb));
      items.push((Harness { fl, unify: true, min_seg: 8, cap: 256, shape, progs: vec![vec![B(16), DropOwn], vec![DropPre(0)], vec![DropPre(1)]], own_arenas: false, leave: 0, odd: 0, reserved: 0 }, tb));
    }
  }
  let images = std::sync::atomic::AtomicU64::new(0);
  let scheds = std::sync::atomic::AtomicU64::new(0);
  fn none(_: &str) -> Option<&'static str> {
    None
  }
  par_for_each(&items, |_, (h, bound)| {
    IMG.with(|i| *i.borrow_mut() = Some(ImgState::default()));
    let xc = ExploreCfg { bound: *bound, hb: false, drain: false, prop_of: none, max_execs: 2_000_000, cache: false, stale: 0, spur: 0, por: false };
    let st = explore(run, h, &xc, "C06");
    scheds.fetch_add(st.execs, std::sync::atomic::Ordering::Relaxed);
    let got = IMG.with(|i| i.borrow_mut().take()).unwrap_or_default();
    let cfg = c06_sched_cfg(h);
    for ci in got.out {
      let case = json!({"engine": "c06-sched", "tag": "C06", "harness": h, "schedule": ci.sched, "event": ci.event});
      crate::crashguard::set_case(crate::crashguard::head_of(&case));
      recover(run, &cfg, &ci.img, &ci.lives, &format!("threads {} fl={:?} shape={}", crate::sched::progs_str(&h.progs), h.fl, h.shape), &format!("at scheduling event {} of schedule {:?}", ci.event, ci.sched), &case);
      images.fetch_add(1, std::sync::atomic::Ordering::Relaxed);
      run.states.insert(hash_of(&ci.img));
    }
    crate::crashguard::clear_case();
  });
  run.set("concurrent_part", json!({"harnesses": items.len(), "schedules": scheds.load(std::sync::atomic::Ordering::Relaxed), "distinct_crash_images_recovered": images.load(std::sync::atomic::Ordering::Relaxed), "preemption_bound": if thorough { 4 } else { 3 }, "triple_bound": if thorough { 2 } else { 1 }, "menu": menu.iter().map(|p| crate::sched::progs_str(&[p.clone()])).collect::<Vec<_>>(), "note": "a kill while two or three threads are inside operations: every distinct (memory image, live ranges) pair occurring at a scheduling point of any explored schedule is recovered"}));
}

/// replay of one concurrent crash image: the schedule is re-run and the image at the recorded event recovered
fn replay_c06_sched(case: &Value) -> i32 {
  use crate::sched::{run_one, ExecOpts, Harness, ImgState, IMG};
  let h: Harness = serde_json::from_value(case["harness"].clone()).expect("harness");
  let sched: Vec<u8> = serde_json::from_value(case["schedule"].clone()).expect("schedule");
  let event = case["event"].as_u64().unwrap_or(0);
  IMG.with(|i| *i.borrow_mut() = Some(ImgState::default()));
  let o = ExecOpts { tracing: false, hash_states: false, hb: false, drain: false, cache: false, bounded: true, stale: 0, spur: 0, por: false };
  let _ = run_one(&h, &sched, &o);
  let got = IMG.with(|i| i.borrow_mut().take()).unwrap_or_default();
  let run = Run::new("C06", Tier::Quick, "fault_enumeration");
  let Some(ci) = got.out.iter().find(|c| c.event == event).or(got.out.last()) else {
    println!("machinery: no image at event {}", event);
    return 2;
  };
  println!("replay c06-sched: {} fl={:?} shape={} schedule {:?}, image at event {} ({} live ranges)", crate::sched::progs_str(&h.progs), h.fl, h.shape, sched, ci.event, ci.lives.len());
  recover(&run, &c06_sched_cfg(&h), &ci.img, &ci.lives, "replay", &format!("at scheduling event {}", ci.event), case);
  run.finish()
}

/// unsync::Arena performs no atomic accesses: its crash points are the operation boundaries.  The image is what the
/// *file* holds there (the page cache a kill leaves behind), which must be what the mapping shows.
fn c06_unsync_case(run: &Run, cfg: &Cfg, st: &Start, word: &[Op], trunc: bool) {
  type U = unsync::Arena;
  let mut cfgv = *cfg;
  let mut r = Runner::<U>::new(cfg).unwrap();
  let mut v = vec![];
  for su in &st.setup {
    match su {
      Setup::Do(op) => {
        r.step(*op, 0, &mut v);
      }
      Setup::Pin(p) => r.pin(*p as usize),
    }
  }
  let case = json!({"engine": "c06-unsync", "cfg": cfg, "start": st, "word": word.to_vec(), "trunc": trunc});
  crate::crashguard::set_case(crate::crashguard::head_of(&case));
  let ctx = format!("unsync {:?} start {}{} history {}", cfg.fl, st.name, if trunc { " truncate(capacity + 64)" } else { "" }, word_str(&word));
  if trunc {
    cfgv.cap += 64;
    let mif = r.min_in_force;
    // the handles are detached and dropped before the resize (it moves the mapping); their ranges stay
    // the caller's
    let mut keep: Vec<Live> = vec![];
    for mut l in std::mem::take(&mut r.slots).into_iter().chain(std::mem::take(&mut r.pinned)) {
      if let Some(h) = l.h.as_mut() {
        h.detach_();
      }
      l.h = None;
      keep.push(l);
    }
    let (mut arena, path) = r.into_arena();
    match arena.truncate_(cfgv.cap as usize) {
      Some(Ok(())) => {}
      other => {
        viol(run, "C06", "truncate-failed", format!("[{}] truncate({}): {:?}", ctx, cfgv.cap, other.map(|r| r.map_err(|e| e.to_string()))), case.clone());
        return;
      }
    }
    r = Runner::<U>::from_arena(&cfgv, arena, path);
    r.min_in_force = mif;
    r.pinned = keep;
  }
  for (k, op) in word.iter().enumerate() {
    if r.step(*op, 0, &mut v).is_none() {
      break;
    }
    let lives: Vec<(Meta4, u8)> = r.all_live().map(|l| (l.m, l.pat)).collect();
    // what a kill leaves behind is what the page cache holds: the file, not this process's view of it
    let img = match r.path.as_ref().and_then(|p| std::fs::read(p).ok()) {
      Some(f) => f,
      None => r.a.memory().to_vec(),
    };
    if img.len() != r.a.memory().len() || img != r.a.memory() {
      let first = img.iter().zip(r.a.memory()).position(|(x, y)| x != y);
      viol(run, "C06", "file-differs-from-mapping", format!("[{} | after {}] the file holds {} bytes, the mapping {}; first difference at {:?}: what the arena wrote has not reached the file a kill would leave", ctx, word_str(&word[..=k]), img.len(), r.a.memory().len(), first), case.clone());
      break;
    }
    recover(run, &cfgv, &img, &lives, &format!("{} (first {})", ctx, k + 1), "at the operation boundary", &case);
  }
  crate::crashguard::clear_case();

}

pub fn check_c06(tier: Tier) -> i32 {
  let run = Run::new("C06", tier, "fault_enumeration");
  let thorough = tier == Tier::Thorough;
  use Op::*;
  use Sz::*;
  let alphabet = vec![B(N(7)), B(N(16)), B(N(40)), B(R), T(U64), T(A16), AB(U64, N(4)), D(0), D(1), F(0), Disc, Clear];
  let mut items = vec![];
  for fl in Fl::ALL {
    for (reserved, min_seg) in [(0u32, 8u32), (5, 0)] {
      let mut c = Cfg::new(fl, Backend::File, true, 256 + ((reserved + 7) & !7));
      c.reserved = reserved;
      c.min_seg = min_seg;
      items.push(c);
    }
  }
  {
    // an arena that starts at an offset of its file
    let mut c = Cfg::new(Fl::Optimistic, Backend::File, true, 256);
    c.file_offset = 4096;
    items.push(c);
  }
  // every crash image is written to a file and mapped: work items (cell, start state) go to single-threaded
  // child processes (shard.rs); the unsync and the concurrent part run in the parent
  let depth = if thorough { 5 } else { 4 };
  let work: Vec<(usize, usize)> = (0..items.len()).flat_map(|ci| (0..5).map(move |st| (ci, st))).collect();
  if crate::shard::child().is_some() {
    for (i, (ci, st)) in work.iter().enumerate() {
      if crate::shard::mine(i) {
        c06_cell_from(&run, &items[*ci], &alphabet, depth, *st);
      }
    }
    return crate::shard::finish_child(&run);
  }
  if let Err(code) = crate::shard::run_children(&run, "C06", tier, crate::report::nthreads()) {
    return code;
  }
  // unsync::Arena performs no atomic accesses: its crash points are the operation boundaries,
  // i.e. the image left by a history that is simply abandoned (no drop, no flush)
  {
    type U = unsync::Arena;
    for fl in Fl::ALL {
      let cfg = Cfg::new(fl, Backend::File, true, 256);
      for st in [Start::fresh(), fragmented_starts()[1].clone()] {
        for a1 in &alphabet {
          for a2 in &alphabet {
            for trunc in [false, true] {
              c06_unsync_case(&run, &cfg, &st, &[*a1, *a2], trunc);
            }
          }
        }
      }
    }
  }
  c06_concurrent(&run, thorough);
  run.sample(|| json!({"cfg": "sync Optimistic file arena", "start": "full-2eq", "history": "B(7) B(16)", "crash_images": "one image before every atomic access and before the zeroing of the last operation, plus one after it", "recovery": "map_mut, cursor in range, pre-crash live ranges intact, probe workload (allocations, releases, discard_freelist) terminates under an event budget and never re-issues a live range"}));
  run.rule("for every history of depth 4 (thorough: 5) from 5 start states in 7 cells (one at file offset 4096): the shared mapping is copied before every atomic access (and before the zeroing) of the last operation and after it; every image is written to a file, reopened writable (capacity named or not, with or without the create flag) and put through the recovery oracle, every fourth one a second time as the reopen left it (a kill right after the recovery pass); unsync: image at every operation boundary; evaluations = crash images recovered; states = distinct images");
  run.set("bounds", json!({"depth": depth, "alphabet": alphabet.iter().map(|o| o.short()).collect::<Vec<_>>(), "probe_budget_events_per_call": 600}));
  run.assume("crash model: process kill with the page cache intact (no torn pages, no reordering of write-back)");
  run.finish()
}

// ---------------------------------------------------------------------------------------------
// replay of recorded cases (re-runs the smallest enclosing unit and prints what it finds)

pub fn replay(case: &Value) -> i32 {
  std::env::set_var("VERIF_REPLAY_MODE", "1");
  let eng = case["engine"].as_str().unwrap_or("");
  if eng == "c06-sched" {
    return replay_c06_sched(case);
  }
  let sync = case["flavour"].as_str().unwrap_or("sync") == "sync";
  let cfg: Cfg = serde_json::from_value(case["cfg"].clone()).expect("cfg");
  match eng {
    "c09" => {
      let run = Run::new("C09", Tier::Quick, "fault_enumeration");
      if sync {
        c09_files::<sync::Arena>(&run, &cfg, true)
      } else {
        c09_files::<unsync::Arena>(&run, &cfg, true)
      }
      run.finish()
    }
    "c09-ro" => {
      let run = Run::new("C09", Tier::Quick, "fault_enumeration");
      let depth = case["ops"].as_array().map(|a| a.len()).unwrap_or(2);
      if sync {
        c09_readonly::<sync::Arena>(&run, &cfg, depth)
      } else {
        c09_readonly::<unsync::Arena>(&run, &cfg, depth)
      }
      run.finish()
    }
    "c05" => {
      let run = Run::new("C05", Tier::Quick, "model_checking");
      let st: Start = serde_json::from_value(case["start"].clone()).expect("start");
      let word: Vec<Op> = serde_json::from_value(case["word"].clone()).expect("word");
      let cut = case["cut"].as_u64().unwrap_or(0) as usize;
      let mode: Mode = serde_json::from_value(case["mode"].clone()).expect("mode");
      let capo: CapOpt = serde_json::from_value(case["cap"].clone()).expect("cap");
      let (flush, create) = (case["flush"].as_bool().unwrap_or(false), case["create"].as_bool().unwrap_or(false));
      println!("replay c05: {:?} start {} history {} cut {} {:?} {:?}", cfg, st.name, word_str(&word), cut, mode, capo);
      if sync {
        c05_case::<sync::Arena>(&run, &cfg, &st, &word, cut, mode, capo, flush, create);
      } else {
        c05_case_t::<unsync::Arena>(&run, &cfg, &st, &word, cut, mode, capo, flush, create, case["trunc"].as_bool().unwrap_or(false));
      }
      run.finish()
    }
    "c06-unsync" if case.get("start").is_some() => {
      let run = Run::new("C06", Tier::Quick, "fault_enumeration");
      let st: Start = serde_json::from_value(case["start"].clone()).expect("start");
      let word: Vec<Op> = serde_json::from_value(case["word"].clone()).expect("word");
      println!("replay c06-unsync: {:?} start {} history {} trunc {}", cfg, st.name, word_str(&word), case["trunc"].as_bool().unwrap_or(false));
      c06_unsync_case(&run, &cfg, &st, &word, case["trunc"].as_bool().unwrap_or(false));
      run.finish()
    }
    "c06" | "c06-unsync" => {
      let run = Run::new("C06", Tier::Quick, "fault_enumeration");
      let word: Vec<Op> = serde_json::from_value(case["word"].clone()).expect("word");
      println!("replay c06: {:?} history {} (all crash images of the last operation)", cfg, word_str(&word));
      // re-run the cell restricted to this word: alphabet = the word's symbols, then filter by signature
      let alpha: Vec<Op> = word.clone();
      c06_cell(&run, &cfg, &alpha, word.len());
      run.finish()
    }
    _ => {
      eprintln!("machinery: unknown engine {eng}");
      2
    }
  }
}
