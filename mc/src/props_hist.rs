//! Properties decided by the history explorer (E2): C01, C03 (history part), C08, C10, C11, C20.
use crate::hist::*;
use crate::report::{Run, Tier};
use crate::subject::*;
use serde_json::json;

fn core_alphabet() -> Vec<Op> {
  use Op::*;
  use Sz::*;
  vec![
    B(N(0)), B(N(7)), B(N(16)), B(N(33)), B(R), BO(N(16)),
    T(U32), T(U64), T(A16), T(UNIT), T(Ty::Dc), TO(U64),
    AB(U64, N(0)), AB(A16, N(9)), ABO(U64, N(8)),
    D(0), D(1), D(2), X(0), F(0), F(1),
  ]
}

fn full_alphabet() -> Vec<Op> {
  use Op::*;
  use Sz::*;
  let mut v = core_alphabet();
  v.extend([
    B(N(1)), B(Rm(1)), BO(N(0)), BO(N(33)), T(U8), T(U16), TO(A16), TO(Ty::Dc), TO(UNIT),
    AB(U8, N(13)), AB(UNIT, N(5)), ABO(A16, N(0)), D(3), X(1), F(2),
  ]);
  v
}

pub fn cells(backends: &[(Backend, bool)], cap_plain: u32, cap_unify: u32) -> Vec<Cfg> {
  let mut v = vec![];
  for fl in Fl::ALL {
    for (b, u) in backends {
      let unified = *u || *b == Backend::File;
      v.push(Cfg::new(fl, *b, *u, if unified { cap_unify } else { cap_plain }));
    }
  }
  v
}

const MEM_BACKENDS: [(Backend, bool); 4] = [(Backend::Vec, false), (Backend::Vec, true), (Backend::Anon, false), (Backend::Anon, true)];

pub fn check(id: &str, tier: Tier) -> i32 {
  let run = Run::new(id, tier, "model_checking");
  let thorough = tier == Tier::Thorough;
  // plain layout: data offset 1; unified: 32.  Same number of data bytes (224) in both.
  let (cap_plain, cap_unify) = (225, 256);
  let mut all_starts = fragmented_starts();
  let (mut alphabet, oracles, diff, depth): (Vec<Op>, u32, bool, usize) = match id {
    "C01" => (core_alphabet(), O_SHADOW, false, 4),
    "C03" => (core_alphabet(), O_CAPALIGN, false, 4),
    "C08" => {
      use Op::*;
      use Sz::*;
      (
        vec![B(N(7)), B(N(16)), B(N(40)), B(R), BO(N(24)), BO(Rm(8)), T(U64), AB(A16, N(9)), D(0), D(1), D(2), F(0), X(1), Disc, Rewind(Pos::Start(0)), Rewind(Pos::Cur(-20)), Rewind(Pos::End(0))],
        O_ZERO,
        false,
        4,
      )
    }
    "C10" | "C20" => {
      let mut a = core_alphabet();
      a.extend([Op::Disc, Op::SetMin(0), Op::SetMin(64), Op::IncDisc(3)]);
      if id == "C20" {
        // "except through clear()": afterwards the accounting starts again from 0 with the minimum segment size in force
        a.push(Op::Clear);
        // moving the cursor is not a reason for discarded() to go down either
        a.push(Op::Rewind(Pos::Start(0)));
        a.push(Op::Rewind(Pos::Cur(-20)));
      }
      (a, if id == "C10" { O_FREELIST } else { O_DISCARDED }, false, 4)
    }
    "C11" => {
      let mut a = core_alphabet();
      a.extend([Op::Disc, Op::SetMin(0), Op::SetMin(64), Op::IncDisc(3), Op::Rewind(Pos::Start(0)), Op::Rewind(Pos::Cur(-20)), Op::Rewind(Pos::End(8)), Op::Clear]);
      (a, 0, true, 4)
    }
    _ => unreachable!(),
  };
  if id == "C03" || id == "C01" {
    all_starts.extend(residue_starts().into_iter().filter(|s| ["cursor+1", "cursor+7", "cursor+8", "cursor+9"].contains(&s.name.as_str())));
  }
  if id != "C11" {
    // an arena that has been used and cleared is an arena like any other
    all_starts.push(Start { name: "cleared".into(), setup: vec![Setup::Do(Op::B(Sz::N(40))), Setup::Do(Op::B(Sz::N(16))), Setup::Do(Op::D(0)), Setup::Do(Op::Clear)] });
  }
  let spec = Spec { alphabet: alphabet.clone(), depth, oracles, sync: true, unsync: true, diff, diff_prop: "C11" };
  let t0 = std::time::Instant::now();
  // pass 1: in-memory cells, depth 4 from every start state (plus cells with minimum segment size 0)
  let mut mem = cells(&MEM_BACKENDS, cap_plain, cap_unify);
  for fl in Fl::ALL {
    let mut c = Cfg::new(fl, Backend::Vec, true, cap_unify);
    c.min_seg = 0;
    mem.push(c);
  }
  // every call goes through a clone of the arena value (the original stays alive next to it)
  for (fl, b, u) in [(Fl::Optimistic, Backend::Vec, true), (Fl::Pessimistic, Backend::Vec, false), (Fl::None, Backend::Anon, true)] {
    let mut c = Cfg::new(fl, b, u, if u { cap_unify } else { cap_plain });
    c.via_clone = true;
    mem.push(c);
  }
  if id == "C11" {
    // `maximum_retries` is an option like any other: the lock-free arena gives up after that many attempts, the
    // single-threaded one has no use for it; on one thread no attempt is ever lost, so they must still agree
    for (fl, retries) in [(Fl::Optimistic, 0u8), (Fl::Pessimistic, 0), (Fl::Optimistic, 1), (Fl::Pessimistic, 1)] {
      let mut c = Cfg::new(fl, Backend::Vec, true, cap_unify);
      c.retries = retries;
      mem.push(c);
    }
  }
  explore(&run, &spec, &mem, &all_starts, id);
  let mut passes = vec![json!({"cells": mem.len(), "starts": all_starts.len(), "alphabet": alphabet.len(), "depth": depth, "wall_s": t0.elapsed().as_secs_f64()})];
  if id == "C03" {
    // "for all n": requests whose padded size comes within a few bytes of u32::MAX (where a sum narrowed back to
    // u32 wraps around), from fresh space and from recycled segments: Ok only with the capacity asked for
    use Op::*;
    use Sz::*;
    let m = u32::MAX;
    let huge = vec![B(N(16)), B(R), T(U64), D(0), D(1), AB(U64, N(m)), AB(U64, N(m - 7)), AB(U64, N(m - 8)), AB(U64, N(m - 14)), AB(U64, N(m - 15)), AB(U64, N(m - 16)), AB(A16, N(m - 32)), AB(A16, N(m - 47)), AB(U8, N(m)), AB(U16, N(m - 2)), ABO(U64, N(m - 9)), B(N(m)), BO(N(m - 1)), B(Wrap(0)), B(Wrap(1)), AB(U64, Wrap(0)), AB(U64, Wrap(-8)), AB(U64, Wrap(-15)), AB(U64, N(1 << 31)), AB(A16, N((1 << 31) - 16))];
    let spec_h = Spec { alphabet: huge.clone(), depth: 3, ..spec.clone() };
    let th = std::time::Instant::now();
    explore(&run, &spec_h, &mem, &all_starts, id);
    passes.push(json!({"cells": mem.len(), "starts": all_starts.len(), "alphabet": huge.iter().map(|o| o.short()).collect::<Vec<_>>(), "depth": 3, "kind": "huge requests", "wall_s": th.elapsed().as_secs_f64()}));
  }
  // pass 2: file-backed cells at depth 3 (an open + close per history)
  let t1 = std::time::Instant::now();
  let files = cells(&[(Backend::File, true), (Backend::File, false)], cap_unify, cap_unify);
  let spec_f = Spec { depth: if thorough { 4 } else { 3 }, ..spec.clone() };
  explore(&run, &spec_f, &files, &all_starts, id);
  passes.push(json!({"cells": files.len(), "starts": all_starts.len(), "alphabet": alphabet.len(), "depth": spec_f.depth, "backend": "file", "wall_s": t1.elapsed().as_secs_f64()}));
  {
    // pass 3: configuration grid with the full alphabet (quick: depth 2, thorough: depth 3)
    let t2 = std::time::Instant::now();
    let mut grid = vec![];
    for fl in Fl::ALL {
      for (b, u) in MEM_BACKENDS {
        for reserved in [0u32, 5] {
          for min_seg in [0u32, 8, 20] {
            for max_align in [8usize, 16] {
              for cap in [176u32, 256] {
                let mut c = Cfg::new(fl, b, u, cap + reserved + 8);
                c.reserved = reserved;
                c.min_seg = min_seg;
                c.max_align = max_align;
                grid.push(c);
              }
            }
          }
        }
      }
    }
    // file arenas whose window starts at offset 4096 of their file, with and without a reserved prefix
    for fl in Fl::ALL {
      for reserved in [0u32, 5] {
        let mut c = Cfg::new(fl, Backend::File, true, 256 + reserved + 8);
        c.reserved = reserved;
        c.file_offset = 4096;
        grid.push(c);
      }
    }
    if !diff {
      alphabet = full_alphabet();
      if id == "C10" || id == "C20" {
        alphabet.extend([Op::Disc, Op::SetMin(0), Op::SetMin(64), Op::IncDisc(3)]);
      }
      if id == "C20" {
        alphabet.push(Op::Clear);
      }
    }
    let gd = if thorough { 3 } else { 2 };
    let spec_g = Spec { alphabet: alphabet.clone(), depth: gd, ..spec.clone() };
    explore(&run, &spec_g, &grid, &all_starts, id);
    passes.push(json!({"cells": grid.len(), "starts": all_starts.len(), "alphabet": alphabet.len(), "depth": gd, "kind": "configuration grid (free list x backend x layout x reserved x minimum segment size x maximum alignment x capacity)", "wall_s": t2.elapsed().as_secs_f64()}));
  }
  if thorough {
    // pass 4: depth 6 from the fresh arena and depth 5 from the fragmented ones, 12 in-memory cells
    let t3 = std::time::Instant::now();
    let spec_d = Spec { depth: 5, ..spec.clone() };
    explore(&run, &spec_d, &mem, &all_starts, id);
    passes.push(json!({"cells": mem.len(), "starts": all_starts.len(), "alphabet": spec.alphabet.len(), "depth": 5, "wall_s": t3.elapsed().as_secs_f64()}));
  }
  if id == "C11" || id == "C03" || id == "C01" {
    // zero-sized types of every alignment through the typed and the aligned-bytes entry points, with and
    // without extra bytes, at odd cursors and from recycled segments
    use Op::*;
    use Sz::*;
    let (z2, z8, z16) = (Ty::L(2, 0), Ty::L(8, 0), Ty::L(16, 0));
    let zst = vec![B(N(3)), B(R), AB(UNIT, N(0)), AB(UNIT, N(5)), AB(z8, N(0)), AB(z8, N(5)), AB(z2, N(1)), ABO(z8, N(3)), ABO(z16, N(0)), T(z8), TO(z16), T(UNIT), D(0), D(1), F(0)];
    let tz = std::time::Instant::now();
    let spec_z = Spec { alphabet: zst.clone(), depth: 3, ..spec.clone() };
    let cells_z = cells(&[(Backend::Vec, false), (Backend::Vec, true)], cap_plain, cap_unify);
    explore(&run, &spec_z, &cells_z, &all_starts, id);
    passes.push(json!({"cells": cells_z.len(), "starts": all_starts.len(), "alphabet": zst.len(), "depth": 3, "kind": "zero-sized types", "wall_s": tz.elapsed().as_secs_f64()}));
  }
  if id == "C01" || id == "C03" || id == "C10" || id == "C11" {
    // types aligned beyond a free-list node (32, 64) on arenas whose maximum alignment allows them: from fresh space
    // and from recycled segments (whose data starts at 8 mod 16 / mod 32 / mod 64), next to live neighbours
    use Op::*;
    use Sz::*;
    let (a32, a32b, a64, z32) = (Ty::L(32, 32), Ty::L(32, 64), Ty::L(64, 64), Ty::L(32, 0));
    let over = vec![B(N(7)), B(N(40)), B(N(88)), B(R), T(a32), T(a64), TO(a32b), AB(a32, N(5)), ABO(a64, N(0)), AB(z32, N(3)), D(0), D(1), D(2), F(0)];
    let to = std::time::Instant::now();
    let spec_o = Spec { alphabet: over.clone(), depth: if thorough { 5 } else { 4 }, ..spec.clone() };
    let mut cells_o = vec![];
    for fl in [Fl::Optimistic, Fl::Pessimistic] {
      for (b, u, cap) in [(Backend::Vec, true, 512u32), (Backend::Anon, false, 449)] {
        let mut c = Cfg::new(fl, b, u, cap);
        c.max_align = 64;
        cells_o.push(c);
      }
    }
    explore(&run, &spec_o, &cells_o, &[Start::fresh(), all_starts[1].clone(), all_starts[5].clone()], id);
    passes.push(json!({"cells": cells_o.len(), "starts": 3, "alphabet": over.iter().map(|o| o.short()).collect::<Vec<_>>(), "depth": spec_o.depth, "kind": "over-aligned types (32, 64) with maximum alignment 64", "wall_s": to.elapsed().as_secs_f64()}));
  }
  if id == "C20" {
    c20_readonly(&run);
  }
  if id == "C11" {
    crate::props_grid::c11_rewind_grid(&run);
  }
  if id == "C03" {
    // addresses (not only offsets) of over-aligned types, also after the backing memory was re-allocated
    let case = json!({"engine": "buf", "tag": "C03", "part": "big-alignment"});
    let (n, bad) = crate::props_buf::big_alignment_after_truncate();
    run.eval(n);
    for m in bad {
      run.violation(crate::report::Violation { property: "C03".into(), signature: format!("C03:big-alignment:{}", if m.starts_with("as created") { "as-created" } else { "after-truncate" }), message: m, replay: case.clone() });
    }
    crate::props_sched::c03_concurrent(&run, thorough);
    c03_layout_grid(&run, thorough);
  }
  if id == "C08" {
    c08_reopened(&run);
    crate::props_sched::c08_concurrent(&run, thorough);
  }
  run.set("passes", json!(passes));
  run.set("bounds", json!({"max_live_handles": MAX_SLOTS, "alphabet": spec.alphabet.iter().map(|o| o.short()).collect::<Vec<_>>(), "starts": all_starts.iter().map(|s| s.name.clone()).collect::<Vec<_>>()}));
  run.rule("every operation history of the stated depth over the stated alphabet (steps disabled in a state prune the subtree), from every start state, in every configuration cell, replayed on real sync and unsync arenas; evaluations = complete histories; states = distinct (cell, start, depth, observation) tuples; non-trivial = history with at least one allocation that fresh space could not serve, distinct by full observation sequence");
  run.assume("sizes, types and capacities outside the alphabet are not exercised");
  run.assume("snapshot accessors and atomic wrappers added under cfg(rarena_verif) do not change behaviour");
  run.finish()
}

// ---------------------------------------------------------------------------------------------
// C13, single-threaded part: release accounting by twin arenas

/// Every history is run three times on arenas of the same flavour: as written; with every drop
/// replaced by detach + explicit dealloc(buffer_offset, buffer_capacity); and with every owned
/// allocation replaced by its borrowed counterpart.  After every step the allocator state
/// (cursor, discarded, free list) must be the same in all three, the O_RELEASE oracle checks value
/// drops, refs() and detached drops.
fn c13_twins<A: Subject>(run: &Run, cfg: &Cfg, st: &Start, alphabet: &[Op], depth: usize) {
  let n = alphabet.len();
  let mut idx = vec![0usize; depth];
  let as_explicit = |op: Op| match op {
    Op::D(i) => Op::F(i),
    o => o,
  };
  let as_borrowed = |op: Op| match op {
    Op::BO(s) => Op::B(s),
    Op::ABO(t, s) => Op::AB(t, s),
    Op::TO(t) => Op::T(t),
    o => o,
  };
  loop {
    let word: Vec<Op> = idx.iter().map(|i| alphabet[*i]).collect();
    crate::crashguard::set_case(crate::crashguard::head_of(&json!({"engine": "hist", "tag": "C13", "cfg": cfg, "start": st, "word": word, "oracles": O_RELEASE | O_SHADOW, "sync": A::SYNC, "unsync": !A::SYNC, "diff": false})));
    let mut rs: Vec<Runner<A>> = (0..3).map(|_| Runner::<A>::new(cfg).unwrap()).collect();
    let mut v = vec![];
    for r in rs.iter_mut() {
      for su in &st.setup {
        match su {
          Setup::Do(op) => {
            r.step(*op, 0, &mut v);
          }
          Setup::Pin(p) => r.pin(*p as usize),
        }
      }
    }
    let mut cut = None;
    for (k, op) in word.iter().enumerate() {
      let mut v0 = vec![];
      let o0 = rs[0].step(*op, O_RELEASE | O_SHADOW, &mut v0);
      let case = json!({"engine": "hist", "tag": "C13", "cfg": cfg, "start": st, "word": word[..=k].to_vec(), "oracles": O_RELEASE | O_SHADOW, "sync": A::SYNC, "unsync": !A::SYNC, "diff": false});
      if !v0.is_empty() {
        // the history as written already misbehaves: report it and do not drive the twins further
        for x in v0 {
          run.violation(crate::report::Violation { property: "C13".into(), signature: format!("C13:{}:{}", x.class, op_class(op)), message: format!("[{} {:?} start {} history {}] step {}: {}", A::FLAVOUR, cfg, st.name, word_str(&word[..=k]), k, x.msg), replay: case.clone() });
        }
        cut = Some(k);
        break;
      }
      let o1 = rs[1].step(as_explicit(*op), 0, &mut v);
      let o2 = rs[2].step(as_borrowed(*op), 0, &mut v);
      run.trans(1);
      match (o0, o1, o2) {
        (Some(a), Some(b), Some(c)) => {
          let key = |o: &Obs| (o.allocated, o.discarded, o.nodes.clone());
          if key(&a) != key(&b) {
            run.violation(crate::report::Violation { property: "C13".into(), signature: format!("C13:drop-differs-from-explicit-dealloc:{}", op_class(op)), message: format!("[{} {:?} start {} history {}] step {} {}: after the drop (allocated, discarded, free list) = {:?}, after detach + dealloc(buffer_offset, buffer_capacity) = {:?}", A::FLAVOUR, cfg, st.name, word_str(&word[..=k]), k, op.short(), key(&a), key(&b)), replay: case.clone() });
          }
          if key(&a) != key(&c) {
            run.violation(crate::report::Violation { property: "C13".into(), signature: format!("C13:owned-differs-from-borrowed:{}", op_class(op)), message: format!("[{} {:?} start {} history {}] step {} {}: with owned handles {:?}, with borrowed handles {:?}", A::FLAVOUR, cfg, st.name, word_str(&word[..=k]), k, op.short(), key(&a), key(&c)), replay: case.clone() });
          }
          run.states.insert(crate::report::hash_of(&(cfg, &a)));
        }
        (None, None, None) => {
          cut = Some(k);
          break;
        }
        _ => {
          run.violation(crate::report::Violation { property: "C13".into(), signature: "C13:twin-enabledness".into(), message: format!("[{} history {}] step {} enabled on some twins only", A::FLAVOUR, word_str(&word[..=k]), k), replay: case });
          cut = Some(k);
          break;
        }
      }
    }
    if cut.is_none() {
      run.eval(1);
      // refs() is back to 1 once every handle is gone: drop everything that is left
      let r = &mut rs[0];
      let mut vv = vec![];
      while !r.slots.is_empty() {
        r.step(Op::D(0), O_RELEASE, &mut vv);
      }
      let base_refs = if cfg.via_clone { 2 } else { 1 };
      if r.a.refs() != base_refs {
        vv.push(Viol { flag: O_RELEASE, class: "refs-after-all-drops".into(), msg: format!("refs() = {} after all handles were dropped", r.a.refs()) });
      }
      for x in vv {
        run.violation(crate::report::Violation { property: "C13".into(), signature: format!("C13:{}", x.class), message: format!("[{} {:?} start {} history {} + drop of all handles] {}", A::FLAVOUR, cfg, st.name, word_str(&word), x.msg), replay: json!({"engine": "hist", "tag": "C13", "cfg": cfg, "start": st, "word": word, "oracles": O_RELEASE, "sync": A::SYNC, "unsync": !A::SYNC, "diff": false}) });
      }
      run.nontrivial.insert(crate::report::hash_of(&(cfg, &st.name, &word)));
    }
    let mut k = cut.unwrap_or(depth - 1);
    for j in k + 1..depth {
      idx[j] = 0;
    }
    loop {
      idx[k] += 1;
      if idx[k] < n {
        break;
      }
      idx[k] = 0;
      if k == 0 {
        return;
      }
      k -= 1;
    }
  }
}

const C13_ORIGINS: [Option<crate::props_file::Mode>; 5] = [None, Some(crate::props_file::Mode::MapMut), Some(crate::props_file::Mode::MapCopy), Some(crate::props_file::Mode::Map), Some(crate::props_file::Mode::MapCopyRo)];

/// one file-lifetime case: three values (arena, clone, owned handle or second clone) of an arena that created
/// the file (`origin` None) or reopened it in a mode, dropped in the rotation `order`
fn c13_file_case<A: Subject>(fl: Fl, remove: bool, origin: Option<crate::props_file::Mode>, order: usize) -> Vec<String> {
  use rarena_allocator::Allocator;
  let cfg = Cfg::new(fl, Backend::File, true, 256);
  let p = fresh_path("c13f");
  let mut a: A = build(&cfg, Some(&p)).unwrap();
  let mut bad = vec![];
  if let Some(mode) = origin {
    drop(a);
    if !p.exists() {
      bad.push("file disappeared when an unmarked arena was dropped".to_string());
      std::fs::write(&p, b"").ok();
    }
    a = match crate::props_file::open::<A>(&p, crate::props_file::open_opts(&cfg, crate::props_file::CapOpt::Same, false), mode) {
      Ok(a) => a,
      Err(e) => {
        eprintln!("machinery: c13 reopen {:?} failed: {}", mode, e);
        std::process::exit(2);
      }
    };
  }
  // marked through a clone, as any arena value may be used for it
  let b = a.clone();
  b.remove_on_drop(remove);
  let writable = origin.map(|m| m.writable()).unwrap_or(true);
  let o: Box<dyn FnOnce()> = if writable {
    let o = a.alloc_bytes_owned(16).unwrap();
    Box::new(move || drop(o))
  } else {
    let c = b.clone();
    Box::new(move || drop(c))
  };
  if a.refs() != 3 {
    bad.push(format!("refs() = {} with original + clone + owned handle (or second clone)", a.refs()));
  }
  // three values; drop them in different orders, the file must exist until the last one goes
  let mut vals: Vec<Box<dyn FnOnce()>> = vec![Box::new(move || drop(a)), Box::new(move || drop(b)), o];
  vals.rotate_left(order);
  let total = vals.len();
  for (i, d) in vals.into_iter().enumerate() {
    if !p.exists() {
      bad.push(format!("file disappeared before drop #{}", i));
    }
    d();
    let last = i + 1 == total;
    if !last && !p.exists() {
      bad.push(format!("file removed after drop #{} of {} although arena values are alive", i + 1, total));
    }
    if last && remove == p.exists() {
      bad.push(format!("after the last drop the file {} (remove_on_drop = {})", if p.exists() { "still exists" } else { "is gone" }, remove));
    }
    // the mapping itself: present while a value is alive, gone with the last one (also when the file is unlinked)
    let mapped = std::fs::read_to_string("/proc/self/maps").map(|m| m.lines().filter(|l| l.contains(p.to_string_lossy().as_ref())).count()).unwrap_or(0);
    if !last && mapped == 0 {
      bad.push(format!("the file is no longer mapped after drop #{} of {}", i + 1, total));
    }
    if last && mapped != 0 {
      bad.push(format!("after the last drop the file is still mapped ({} mapping(s) in /proc/self/maps; remove_on_drop = {})", mapped, remove));
    }
  }
  let _ = std::fs::remove_file(&p);
  bad
}

/// file-backed: the file exists until the last arena value is dropped and disappears right then when marked
fn c13_files<A: Subject>(run: &Run) {
  for fl in Fl::ALL {
    for remove in [true, false] {
      // the arena that creates the file, and arenas that reopen it in each of the four modes
      for (oi, order) in (0..C13_ORIGINS.len()).flat_map(|o| (0..3).map(move |k| (o, k))) {
        let origin = C13_ORIGINS[oi];
        let case = json!({"engine": "c13-file", "flavour": A::FLAVOUR, "fl": fl, "remove_on_drop": remove, "order": order, "origin": oi});
        crate::crashguard::set_case(crate::crashguard::head_of(&case));
        let bad = c13_file_case::<A>(fl, remove, origin, order);
        run.eval(1);
        crate::crashguard::clear_case();
        for m in bad {
          run.violation(crate::report::Violation { property: "C13".into(), signature: format!("C13:file-lifetime:{}", if remove { "remove-on-drop" } else { "keep" }), message: format!("[{} {:?} origin {:?} order {}] {}", A::FLAVOUR, fl, origin, order, m), replay: case.clone() });
        }
      }
    }
  }
}

pub fn replay_c13_file(case: &serde_json::Value) -> i32 {
  let case = if case.get("case").map(|c| c.is_object()).unwrap_or(false) { &case["case"] } else { case };
  let fl: Fl = serde_json::from_value(case["fl"].clone()).expect("fl");
  let remove = case["remove_on_drop"].as_bool().unwrap_or(true);
  let origin = C13_ORIGINS[case["origin"].as_u64().unwrap_or(0) as usize];
  let order = case["order"].as_u64().unwrap_or(0) as usize;
  let bad = if case["flavour"].as_str() == Some("unsync") { c13_file_case::<rarena_allocator::unsync::Arena>(fl, remove, origin, order) } else { c13_file_case::<rarena_allocator::sync::Arena>(fl, remove, origin, order) };
  for m in &bad {
    println!("VIOLATION property=C13 {}", m);
  }
  println!("replay c13-file: {} problem(s)", bad.len());
  if bad.is_empty() { 0 } else { 1 }
}

/// called by the C13 check before the multi-threaded exploration
pub fn c13_single_threaded(run: &Run, thorough: bool) {
  use Op::*;
  use Sz::*;
  let alphabet = vec![B(N(7)), BO(N(16)), BO(N(0)), AB(U64, N(3)), ABO(U64, N(3)), ABO(A16, N(1)), T(Ty::Dc), TO(Ty::Dc), TO(U64), TO(UNIT), T(U32), T(Ty::DcZ), TO(Ty::DcZ), D(0), D(1), D(2), X(0), X(1), F(0)];
  let depth = if thorough { 4 } else { 3 };
  let mut items = vec![];
  for fl in Fl::ALL {
    for (b, u) in [(Backend::Vec, false), (Backend::Vec, true), (Backend::Anon, true), (Backend::File, true)] {
      for si in [0usize, 1, 4] {
        for sync in [true, false] {
          if !thorough && b == Backend::Anon && !sync {
            continue;
          }
          items.push((Cfg::new(fl, b, u, if u || b == Backend::File { 256 } else { 225 }), si, sync));
        }
      }
    }
  }
  // the library's default minimum segment size (20: a 16-byte extent is given up as discarded and `dealloc` returns
  // false) and 0 (everything that can hold a node word is listed); and calls that go through a clone
  for fl in [Fl::Optimistic, Fl::Pessimistic] {
    for (min_seg, via) in [(20u32, false), (0, false), (20, true)] {
      for si in [0usize, 1] {
        for sync in [true, false] {
          let mut c = Cfg::new(fl, Backend::Vec, true, 256);
          c.min_seg = min_seg;
          c.via_clone = via;
          items.push((c, si, sync));
        }
      }
    }
  }
  // odd cursor start: padded aligned allocations have accessible != buffer range
  let mut starts = fragmented_starts();
  starts[0] = Start { name: "cursor+3".into(), setup: vec![Setup::Do(B(N(3))), Setup::Pin(0)] };
  crate::report::par_for_each(&items, |_, (c, si, sync)| {
    if *sync {
      c13_twins::<rarena_allocator::sync::Arena>(run, c, &starts[*si], &alphabet, depth)
    } else {
      c13_twins::<rarena_allocator::unsync::Arena>(run, c, &starts[*si], &alphabet, depth)
    }
  });
  c13_files::<rarena_allocator::sync::Arena>(run);
  c13_files::<rarena_allocator::unsync::Arena>(run);
  // once more in the build with debug assertions: there std checks that every file descriptor is
  // closed exactly once (a double close aborts the process), which the release build cannot see
  if let Ok(bin) = std::env::var("VERIF_CHECKED_BIN") {
    use std::os::unix::process::ExitStatusExt;
    let mut ch = std::process::Command::new(&bin).arg("c13-files-child").arg("x").spawn().expect("spawn c13 child");
    let pid = ch.id();
    let st = ch.wait().expect("wait c13 child");
    run.eval(1);
    if st.code() == Some(crate::crashguard::CRASH_EXIT) || st.signal().is_some() {
      let p = crate::report::verif_root().join("replays").join(format!("C13-crash-child-{}.json", pid));
      let v: serde_json::Value = serde_json::from_str(&std::fs::read_to_string(&p).unwrap_or_default()).unwrap_or(serde_json::Value::Null);
      let _ = std::fs::remove_file(&p);
      run.violation(crate::report::Violation { property: "C13".into(), signature: format!("C13:file-lifetime:abort-in-checked-build:{}", v["signature"].as_str().unwrap_or("signal")), message: format!("[overflow/debug-checked build] dropping the last value of a file-backed arena killed the process ({:?}); case {}", st, v["case"]), replay: json!({"engine": "c13-file", "profile": "checked", "case": v["case"]}) });
    } else if st.code() != Some(0) {
      eprintln!("machinery: c13-files-child ended with {:?}", st);
      std::process::exit(2);
    }
    run.set("file_lifetime_checked_profile", json!(true));
  }
  run.set("single_threaded_part", json!({"alphabet": alphabet.iter().map(|o| o.short()).collect::<Vec<_>>(), "depth": depth, "cells": items.len(), "oracle": "three twins per history (as written / drops as explicit dealloc of the buffer extent / owned as borrowed) must agree on (allocated, discarded, free list) after every step; value drop counts, refs(), detached drops; file lifetime with remove_on_drop"}));
}

/// discard_freelist on read-only arenas must fail with ReadOnly, whatever the free-list kind of the file
fn c20_readonly(run: &Run) {
  use rarena_allocator::{Allocator, Buffer, Error};
  fn one<A: Subject>(run: &Run, fl: Fl) {
    let cfg = Cfg::new(fl, Backend::File, true, 256);
    let p = fresh_path("c20ro");
    {
      let a: A = build(&cfg, Some(&p)).unwrap();
      let mut x = a.alloc_bytes(40).unwrap();
      unsafe { x.detach() };
      let m = meta_of(&x);
      drop(x);
      let mut y = a.alloc_bytes(8).unwrap();
      unsafe { y.detach() };
      drop(y);
      unsafe { a.dealloc(m.2 as u32, m.3 as u32) };
    }
    for copy in [false, true] {
      let o = cfg.options().with_read(true);
      let a: A = unsafe { if copy { o.map_copy_read_only(&p) } else { o.map(&p) } }.unwrap();
      let d0 = a.discarded();
      let r = a.discard_freelist();
      run.eval(1);
      if !matches!(r, Err(Error::ReadOnly)) || a.discarded() != d0 {
        run.violation(crate::report::Violation { property: "C20".into(), signature: format!("C20:discard-on-readonly:{:?}", fl), message: format!("[{} read-only ({}) arena over a {:?} file] discard_freelist() returned {:?}, discarded {} -> {}", A::FLAVOUR, if copy { "map_copy_read_only" } else { "map" }, fl, r, d0, a.discarded()), replay: json!({"engine": "c20-ro", "flavour": A::FLAVOUR, "fl": fl, "copy": copy}) });
      }
    }
    let _ = std::fs::remove_file(&p);
  }
  for fl in Fl::ALL {
    one::<rarena_allocator::sync::Arena>(run, fl);
    one::<rarena_allocator::unsync::Arena>(run, fl);
  }
}

/// entry point of the debug-checked child for the file-lifetime part of C13
pub fn c13_files_child() -> i32 {
  let crash = crate::report::verif_root().join("replays").join(format!("C13-crash-child-{}.json", std::process::id()));
  let _ = std::fs::create_dir_all(crash.parent().unwrap());
  crate::crashguard::arm("C13", &crash);
  let run = Run::new("C13", Tier::Quick, "model_checking");
  c13_files::<rarena_allocator::sync::Arena>(&run);
  c13_files::<rarena_allocator::unsync::Arena>(&run);
  crate::subject::cleanup_scratch();
  // violations of the in-process oracle are reported by the release pass as well; only a crash matters here
  0
}

/// C03: every generated layout (align 1..16 x size 0..=64) x {alloc::<T>, alloc_aligned_bytes::<T>(0/1/13)}
/// from fresh space at every cursor residue mod 16 and from recycled segments, in every cell.
fn c03_layout_grid(run: &Run, thorough: bool) {
  use crate::layouts::LAYOUTS;
  let mut starts: Vec<Start> = vec![Start::fresh()];
  starts.extend(residue_starts());
  let frag = fragmented_starts();
  starts.extend(frag[1..].iter().cloned());
  // recycled segments whose node sits at different residues: an odd prefix before the blocks
  for r in [1u32, 4, 9] {
    let mut s = frag[2].clone();
    s.name = format!("full-asc+{}", r);
    s.setup.insert(0, Setup::Do(Op::B(Sz::N(r))));
    s.setup.insert(1, Setup::Pin(0));
    starts.push(s);
  }
  let mut cfgs = vec![];
  for fl in [Fl::Optimistic, Fl::Pessimistic] {
    for (b, u) in [(Backend::Vec, false), (Backend::Vec, true), (Backend::Anon, false), (Backend::File, true)] {
      for max_align in [8usize, 16] {
        if max_align == 8 && !thorough && b != Backend::Vec {
          continue;
        }
        let mut c = Cfg::new(fl, b, u, if u || b == Backend::File { 320 } else { 289 });
        c.max_align = max_align;
        cfgs.push(c);
      }
    }
  }
  let mut ops = vec![];
  for (a, s) in LAYOUTS {
    ops.push(Op::T(Ty::L(a, s)));
    for n in [0u32, 1, 13] {
      ops.push(Op::AB(Ty::L(a, s), Sz::N(n)));
    }
    if thorough {
      ops.push(Op::TO(Ty::L(a, s)));
      ops.push(Op::ABO(Ty::L(a, s), Sz::N(5)));
    }
  }
  let spec = Spec { alphabet: ops.clone(), depth: 1, oracles: O_CAPALIGN | O_SHADOW, sync: true, unsync: true, diff: false, diff_prop: "C03" };
  explore(run, &spec, &cfgs, &starts, "C03");
  run.set("layout_grid", json!({"layouts": LAYOUTS.len(), "calls_per_layout": ops.len() / LAYOUTS.len(), "start_states": starts.len(), "cells": cfgs.len()}));
}

/// C08: byte allocations on a reopened file are zero-filled too (fresh space above the stored
/// cursor holds stale bytes in the file; recycled segments hold the previous owner's bytes).
fn c08_reopened(run: &Run) {
  use rarena_allocator::{Allocator, ArenaPosition, Buffer};
  fn one<A: Subject>(run: &Run, fl: Fl, copy: bool) {
    let cfg = Cfg::new(fl, Backend::File, true, 256);
    let p = fresh_path("c08re");
    {
      let a: A = build(&cfg, Some(&p)).unwrap();
      let fill = |n: u32, pat: u8| {
        let mut b = a.alloc_bytes(n).unwrap();
        unsafe { b.detach() };
        let m = meta_of(&b);
        unsafe { std::ptr::write_bytes(a.raw_mut_ptr().add(m.0), pat, m.1) };
        m
      };
      let x = fill(40, 0xA1);
      let _y = fill(24, 0xA2);
      let z = fill(a.remaining() as u32, 0xA3);
      unsafe { a.dealloc(x.2 as u32, x.3 as u32) };
      // stale non-zero bytes above the cursor
      unsafe { a.rewind(ArenaPosition::Start(z.0 as u32 + 16)) };
    }
    let o = cfg.options().with_read(true).with_write(true);
    let a: A = unsafe { if copy { o.map_copy(&p) } else { o.map_mut(&p) } }.unwrap();
    for n in [7u32, 16, 32, 5, 64, 1] {
      if let Ok(mut b) = a.alloc_bytes(n) {
        unsafe { b.detach() };
        let m = meta_of(&b);
        run.eval(1);
        let bytes = unsafe { std::slice::from_raw_parts(a.raw_ptr().add(m.0), m.1) };
        if bytes.iter().any(|x| *x != 0) {
          run.violation(crate::report::Violation { property: "C08".into(), signature: format!("C08:not-zeroed-after-reopen:{}", if copy { "map_copy" } else { "map_mut" }), message: format!("[{} {:?} reopened with {}] alloc_bytes({}) -> [{},{}) = {:x?}", A::FLAVOUR, fl, if copy { "map_copy" } else { "map_mut" }, n, m.0, m.0 + m.1, bytes), replay: json!({"engine": "c08-reopen", "flavour": A::FLAVOUR, "fl": fl, "copy": copy}) });
        }
        unsafe { std::ptr::write_bytes(a.raw_mut_ptr().add(m.0), 0xB7, m.1) };
      }
    }
    drop(a);
    let _ = std::fs::remove_file(&p);
  }
  for fl in Fl::ALL {
    for copy in [false, true] {
      one::<rarena_allocator::sync::Arena>(run, fl, copy);
      one::<rarena_allocator::unsync::Arena>(run, fl, copy);
    }
  }
}
