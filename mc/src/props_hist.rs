//! Properties decided by the history explorer (E2): C01, C03 (history part), C08, C10, C11, C20.
use crate::hist::*;
use crate::report::{Run, Tier};
use crate::subject::*;
use serde_json::json;

fn core_alphabet() -> Vec<Op> {
  use Op::*;
  use Sz::*;
  vec![
    B(N(0)), B(N(7)), B(N(16)), B(N(33)), B(R), BO(N(16)),
    T(U32), T(U64), T(A16), T(UNIT), T(Ty::Dc), TO(U64),
    AB(U64, N(0)), AB(A16, N(9)), ABO(U64, N(8)),
    D(0), D(1), D(2), X(0), F(0), F(1),
  ]
}

fn full_alphabet() -> Vec<Op> {
  use Op::*;
  use Sz::*;
  let mut v = core_alphabet();
  v.extend([
    B(N(1)), B(Rm(1)), BO(N(0)), BO(N(33)), T(U8), T(U16), TO(A16), TO(Ty::Dc), TO(UNIT),
    AB(U8, N(13)), AB(UNIT, N(5)), ABO(A16, N(0)), D(3), X(1), F(2),
  ]);
  v
}

pub fn cells(backends: &[(Backend, bool)], cap_plain: u32, cap_unify: u32) -> Vec<Cfg> {
  let mut v = vec![];
  for fl in Fl::ALL {
    for (b, u) in backends {
      let unified = *u || *b == Backend::File;
      v.push(Cfg::new(fl, *b, *u, if unified { cap_unify } else { cap_plain }));
    }
  }
  v
}

const MEM_BACKENDS: [(Backend, bool); 4] = [(Backend::Vec, false), (Backend::Vec, true), (Backend::Anon, false), (Backend::Anon, true)];

pub fn check(id: &str, tier: Tier) -> i32 {
  let run = Run::new(id, tier, "model_checking");
  let thorough = tier == Tier::Thorough;
  // plain layout: data offset 1; unified: 32.  Same number of data bytes (224) in both.
  let (cap_plain, cap_unify) = (225, 256);
  let mut all_starts = fragmented_starts();
  let (mut alphabet, oracles, diff, depth): (Vec<Op>, u32, bool, usize) = match id {
    "C01" => (core_alphabet(), O_SHADOW, false, 4),
    "C03" => (core_alphabet(), O_CAPALIGN, false, 4),
    "C08" => {
      use Op::*;
      use Sz::*;
      (
        vec![B(N(7)), B(N(16)), B(N(40)), B(R), BO(N(24)), BO(Rm(8)), T(U64), AB(A16, N(9)), D(0), D(1), D(2), F(0), X(1), Disc, Rewind(Pos::Start(0)), Rewind(Pos::Cur(-20)), Rewind(Pos::End(0))],
        O_ZERO,
        false,
        4,
      )
    }
    "C10" | "C20" => {
      let mut a = core_alphabet();
      a.extend([Op::Disc, Op::SetMin(0), Op::SetMin(64), Op::IncDisc(3)]);
      (a, if id == "C10" { O_FREELIST } else { O_DISCARDED }, false, 4)
    }
    "C11" => {
      let mut a = core_alphabet();
      a.extend([Op::Disc, Op::SetMin(0), Op::SetMin(64), Op::IncDisc(3), Op::Rewind(Pos::Start(0)), Op::Rewind(Pos::Cur(-20)), Op::Rewind(Pos::End(8)), Op::Clear]);
      (a, 0, true, 4)
    }
    _ => unreachable!(),
  };
  if id == "C03" || id == "C01" {
    all_starts.extend(residue_starts().into_iter().filter(|s| ["cursor+1", "cursor+7", "cursor+8", "cursor+9"].contains(&s.name.as_str())));
  }
  let spec = Spec { alphabet: alphabet.clone(), depth, oracles, sync: true, unsync: true, diff, diff_prop: "C11" };
  let t0 = std::time::Instant::now();
  // pass 1: in-memory cells, depth 4 from every start state
  let mem = cells(&MEM_BACKENDS, cap_plain, cap_unify);
  explore(&run, &spec, &mem, &all_starts, id);
  let mut passes = vec![json!({"cells": mem.len(), "starts": all_starts.len(), "alphabet": alphabet.len(), "depth": depth, "wall_s": t0.elapsed().as_secs_f64()})];
  // pass 2: file-backed cells at depth 3 (an open + close per history)
  let t1 = std::time::Instant::now();
  let files = cells(&[(Backend::File, true)], cap_unify, cap_unify);
  let spec_f = Spec { depth: if thorough { 4 } else { 3 }, ..spec.clone() };
  explore(&run, &spec_f, &files, &all_starts, id);
  passes.push(json!({"cells": files.len(), "starts": all_starts.len(), "alphabet": alphabet.len(), "depth": spec_f.depth, "backend": "file", "wall_s": t1.elapsed().as_secs_f64()}));
  if thorough {
    // pass 3: configuration grid at depth 4 with the full alphabet
    let t2 = std::time::Instant::now();
    let mut grid = vec![];
    for fl in Fl::ALL {
      for (b, u) in MEM_BACKENDS {
        for reserved in [0u32, 5] {
          for min_seg in [0u32, 8, 20] {
            for max_align in [8usize, 16] {
              for cap in [176u32, 256] {
                let mut c = Cfg::new(fl, b, u, cap + reserved + 8);
                c.reserved = reserved;
                c.min_seg = min_seg;
                c.max_align = max_align;
                grid.push(c);
              }
            }
          }
        }
      }
    }
    if !diff {
      alphabet = full_alphabet();
      if id == "C10" || id == "C20" {
        alphabet.extend([Op::Disc, Op::SetMin(0), Op::SetMin(64), Op::IncDisc(3)]);
      }
    }
    let spec_g = Spec { alphabet: alphabet.clone(), depth: 3, ..spec.clone() };
    explore(&run, &spec_g, &grid, &all_starts, id);
    passes.push(json!({"cells": grid.len(), "starts": all_starts.len(), "alphabet": alphabet.len(), "depth": 3, "wall_s": t2.elapsed().as_secs_f64()}));
    // pass 4: depth 6 from the fresh arena and depth 5 from the fragmented ones, 12 in-memory cells
    let t3 = std::time::Instant::now();
    let spec_d = Spec { depth: 5, ..spec.clone() };
    explore(&run, &spec_d, &mem, &all_starts, id);
    passes.push(json!({"cells": mem.len(), "starts": all_starts.len(), "alphabet": spec.alphabet.len(), "depth": 5, "wall_s": t3.elapsed().as_secs_f64()}));
  }
  run.set("passes", json!(passes));
  run.set("bounds", json!({"max_live_handles": MAX_SLOTS, "alphabet": spec.alphabet.iter().map(|o| o.short()).collect::<Vec<_>>(), "starts": all_starts.iter().map(|s| s.name.clone()).collect::<Vec<_>>()}));
  run.rule("every operation history of the stated depth over the stated alphabet (steps disabled in a state prune the subtree), from every start state, in every configuration cell, replayed on real sync and unsync arenas; evaluations = complete histories; states = distinct (cell, start, depth, observation) tuples; non-trivial = history with at least one allocation that fresh space could not serve, distinct by full observation sequence");
  run.assume("sizes, types and capacities outside the alphabet are not exercised");
  run.assume("snapshot accessors and atomic wrappers added under cfg(rarena_verif) do not change behaviour");
  run.finish()
}
