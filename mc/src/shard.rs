//! Process-level sharding for checks that map and unmap files all the time: threads of one process
//! serialise on the address-space lock, child processes do not.  The parent spawns `shard-child`
//! processes of the same binary, each runs the same check restricted to its share of the work list
//! and writes a result file; the parent merges counters, state hashes and violations.  A child that
//! dies on a published case is handled like the crash of a whole check (confirmed by replay).
use crate::report::{Run, Tier, Violation};
use serde_json::{json, Value};

/// `(k, K)` when this process is shard k of K
pub fn child() -> Option<(usize, usize)> {
  let s = std::env::var("VERIF_SHARD").ok()?;
  let (a, b) = s.split_once('/')?;
  Some((a.parse().ok()?, b.parse().ok()?))
}

/// does work item `i` belong to this process (always true outside shard mode)
pub fn mine(i: usize) -> bool {
  match child() {
    Some((k, n)) => i % n == k,
    None => true,
  }
}

/// end of a shard: result file instead of evidence
pub fn finish_child(run: &Run) -> i32 {
  let out = std::env::var("VERIF_SHARD_OUT").expect("VERIF_SHARD_OUT");
  let viol: Vec<Value> = run.violations.lock().unwrap().values().map(|(n, v)| json!({"signature": v.signature, "message": v.message, "replay": v.replay, "property": v.property, "occurrences": n})).collect();
  let v = json!({
    "evaluations": run.evaluations.load(std::sync::atomic::Ordering::Relaxed),
    "transitions": run.transitions.load(std::sync::atomic::Ordering::Relaxed),
    "violations": viol,
    "state_hashes": run.states.dump(), "nontrivial_hashes": run.nontrivial.dump(),
  });
  std::fs::write(out, serde_json::to_string(&v).unwrap()).expect("write shard result");
  0
}

/// Parent side.  Err(code) = machinery failure.
pub fn run_children(run: &Run, id: &str, tier: Tier, nshards: usize) -> Result<(), i32> {
  let exe = std::env::current_exe().expect("current_exe");
  let mut kids = vec![];
  for k in 0..nshards {
    let out = crate::subject::scratch_dir().join(format!("shard-{}-{}.json", id, k));
    let ch = std::process::Command::new(&exe)
      .arg("shard-child")
      .arg(id)
      .arg("--tier")
      .arg(tier.name())
      .env("VERIF_SHARD", format!("{}/{}", k, nshards))
      .env("VERIF_SHARD_OUT", &out)
      .env("VERIF_THREADS", "1")
      .spawn()
      .expect("spawn shard child");
    kids.push((ch, out));
  }
  let mut failed = None;
  for (mut ch, out) in kids {
    let pid = ch.id();
    let st = ch.wait().expect("wait shard child");
    let _ = std::fs::remove_dir_all(std::path::Path::new("/dev/shm").join(format!("rarena-verif-{}", pid)));
    if st.code() == Some(0) {
      let v: Value = serde_json::from_str(&std::fs::read_to_string(&out).unwrap_or_default()).unwrap_or(Value::Null);
      let _ = std::fs::remove_file(&out);
      if v.is_null() {
        eprintln!("machinery: {} shard wrote no result", id);
        failed = Some(2);
        continue;
      }
      run.eval(v["evaluations"].as_u64().unwrap_or(0));
      run.trans(v["transitions"].as_u64().unwrap_or(0));
      for h in v["state_hashes"].as_array().cloned().unwrap_or_default() {
        run.states.insert(h.as_u64().unwrap_or(0));
      }
      for h in v["nontrivial_hashes"].as_array().cloned().unwrap_or_default() {
        run.nontrivial.insert(h.as_u64().unwrap_or(0));
      }
      for x in v["violations"].as_array().cloned().unwrap_or_default() {
        for _ in 0..x["occurrences"].as_u64().unwrap_or(1).min(3) {
          run.violation(Violation { property: x["property"].as_str().unwrap_or(id).into(), signature: x["signature"].as_str().unwrap_or("").into(), message: x["message"].as_str().unwrap_or("").into(), replay: x["replay"].clone() });
        }
      }
    } else if st.code() == Some(crate::crashguard::CRASH_EXIT) {
      let p = crate::report::verif_root().join("replays").join(format!("{}-crash-{}.json", id, pid));
      let v: Value = serde_json::from_str(&std::fs::read_to_string(&p).unwrap_or_default()).unwrap_or(Value::Null);
      let sig = v["signature"].as_str().unwrap_or("crash").to_string();
      let signature = format!("{}:{}", v["case"]["tag"].as_str().unwrap_or(id), sig);
      let secs = if sig.starts_with("hang") { 30 } else { 300 };
      let seen = run.violations.lock().unwrap().contains_key(&signature);
      if v.is_null() || (!seen && !crate::crashguard::confirm_replay(&exe, &p, secs)) {
        eprintln!("machinery: {} shard died but the recorded case {} does not reproduce", id, p.display());
        failed = Some(2);
        continue;
      }
      run.eval(v["evaluations_before"].as_u64().unwrap_or(0) + 1);
      run.violation(Violation { property: id.into(), signature, message: v["message"].as_str().unwrap_or("").to_string(), replay: v["case"].clone() });
      run.not_exhaustive("a shard ended at a subject crash");
      let _ = std::fs::remove_file(p);
    } else {
      eprintln!("machinery: {} shard ended with {:?}", id, st);
      failed = Some(2);
    }
  }
  match failed {
    Some(c) => Err(c),
    None => Ok(()),
  }
}
