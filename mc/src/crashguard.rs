//! Turns a fatal signal raised while subject code runs on a known case into a replayable artefact.
//!
//! Every worker publishes the case it is executing (a pre-serialised JSON object plus a small
//! index vector) in thread-local storage.  The handler for SIGSEGV/SIGBUS/SIGABRT/SIGILL/SIGFPE
//! writes `<replays>/<property>-crash-<pid>.json` with `write(2)` only and `_exit(77)`.
//! `main` runs every check in a child process; when the child ends with 77 the parent re-runs the
//! recorded case in a second child and reports a violation only if it dies again.
use std::cell::Cell;
use std::sync::atomic::{AtomicU64, Ordering};

pub const CRASH_EXIT: i32 = 77;

/// Lives in its own anonymous mapping (not on the heap) so that a runaway write of the subject
/// that tramples the heap before the fatal signal cannot destroy the description of the case.
#[repr(C)]
pub struct Ctx {
  /// bumped whenever the published case changes (progress indicator for the watchdog)
  seq: AtomicU64,
  active: std::sync::atomic::AtomicBool,
  n: usize,
  idx: [u32; 24],
  head_len: usize,
  /// JSON object text of the case, without the closing brace
  head: [u8; HEAD_MAX],
}
const HEAD_MAX: usize = 60 * 1024;

thread_local! {
  static CTX: Cell<*mut Ctx> = const { Cell::new(std::ptr::null_mut()) };
  static ACTIVE: Cell<bool> = const { Cell::new(false) };
}

static mut OUT_PATH: [u8; 512] = [0; 512];
static mut PROPERTY: [u8; 16] = [0; 16];
pub static EVALS: AtomicU64 = AtomicU64::new(0);
static mut BUF: [u8; 32768] = [0; 32768];

fn put(buf: &mut [u8], pos: &mut usize, s: &[u8]) {
  for b in s {
    if *pos < buf.len() {
      buf[*pos] = *b;
      *pos += 1;
    }
  }
}
fn put_num(buf: &mut [u8], pos: &mut usize, mut n: u64) {
  let mut d = [0u8; 20];
  let mut k = 0;
  if n == 0 {
    d[0] = b'0';
    k = 1;
  }
  while n > 0 {
    d[k] = b'0' + (n % 10) as u8;
    n /= 10;
    k += 1;
  }
  while k > 0 {
    k -= 1;
    put(buf, pos, &d[k..k + 1]);
  }
}

extern "C" fn handler(sig: libc::c_int, _info: *mut libc::siginfo_t, _uc: *mut libc::c_void) {
  unsafe {
    let p = CTX.with(|c| c.get());
    if p.is_null() || !ACTIVE.with(|a| a.get()) {
      // not inside subject code on a known case: machinery crash, die the default way
      libc::signal(sig, libc::SIG_DFL);
      libc::raise(sig);
      return;
    }
    // only the first crashing thread writes the artefact; the others wait for its _exit
    static ENTERED: std::sync::atomic::AtomicBool = std::sync::atomic::AtomicBool::new(false);
    if ENTERED.swap(true, Ordering::SeqCst) {
      loop {
        libc::pause();
      }
    }
    let ctx = &*p;
    let buf: &mut [u8] = &mut *std::ptr::addr_of_mut!(BUF);
    let mut pos = 0;
    put(buf, &mut pos, b"{\"property\":\"");
    let pl = PROPERTY.iter().position(|b| *b == 0).unwrap_or(0);
    put(buf, &mut pos, &PROPERTY[..pl]);
    put(buf, &mut pos, b"\",\"signature\":\"crash:signal-");
    put_num(buf, &mut pos, sig as u64);
    put(buf, &mut pos, b"\",\"message\":\"subject died with signal ");
    put_num(buf, &mut pos, sig as u64);
    put(buf, &mut pos, b" while running this case\",\"evaluations_before\":");
    put_num(buf, &mut pos, EVALS.load(Ordering::Relaxed));
    put(buf, &mut pos, b",\"case\":");
    put(buf, &mut pos, &ctx.head[..ctx.head_len.min(HEAD_MAX)]);
    put(buf, &mut pos, b",\"idx\":[");
    for i in 0..ctx.n {
      if i > 0 {
        put(buf, &mut pos, b",");
      }
      put_num(buf, &mut pos, ctx.idx[i] as u64);
    }
    put(buf, &mut pos, b"]}}\n");
    let fd = libc::open(
      std::ptr::addr_of!(OUT_PATH) as *const libc::c_char,
      libc::O_WRONLY | libc::O_CREAT | libc::O_TRUNC,
      0o644,
    );
    if fd >= 0 {
      libc::write(fd, buf.as_ptr() as *const libc::c_void, pos);
      libc::close(fd);
    }
    libc::_exit(CRASH_EXIT);
  }
}

/// Install the handlers (once per process) and fix the artefact path.
pub fn arm(property: &str, path: &std::path::Path) {
  unsafe {
    let p = path.to_string_lossy();
    let b = p.as_bytes();
    let n = b.len().min(510);
    let out = std::ptr::addr_of_mut!(OUT_PATH) as *mut u8;
    std::ptr::copy_nonoverlapping(b.as_ptr(), out, n);
    *out.add(n) = 0;
    let pb = property.as_bytes();
    let pp = std::ptr::addr_of_mut!(PROPERTY) as *mut u8;
    std::ptr::copy_nonoverlapping(pb.as_ptr(), pp, pb.len().min(15));
    let mut sa: libc::sigaction = std::mem::zeroed();
    sa.sa_sigaction = handler as usize;
    sa.sa_flags = libc::SA_SIGINFO | libc::SA_ONSTACK | libc::SA_NODEFER;
    libc::sigemptyset(&mut sa.sa_mask);
    for s in [libc::SIGSEGV, libc::SIGBUS, libc::SIGABRT, libc::SIGILL, libc::SIGFPE] {
      libc::sigaction(s, &sa, std::ptr::null_mut());
    }
  }
  start_watchdog();
}

/// Publish the case this thread is about to run (`head` = JSON object text without closing brace).
pub fn set_case(head: String) {
  let mut p = CTX.with(|c| c.get());
  if p.is_null() {
    unsafe {
      let m = libc::mmap(std::ptr::null_mut(), std::mem::size_of::<Ctx>(), libc::PROT_READ | libc::PROT_WRITE, libc::MAP_PRIVATE | libc::MAP_ANONYMOUS, -1, 0);
      assert!(m != libc::MAP_FAILED, "mmap for crash context");
      p = m as *mut Ctx;
    }
    CTX.with(|c| c.set(p));
    REGISTRY.lock().unwrap().push(p as usize);
  }
  unsafe {
    let c = &mut *p;
    let b = head.as_bytes();
    let n = b.len().min(HEAD_MAX);
    c.head[..n].copy_from_slice(&b[..n]);
    c.head_len = n;
    c.n = 0;
    c.seq.fetch_add(1, Ordering::Relaxed);
    c.active.store(true, Ordering::Relaxed);
  }
  ACTIVE.with(|a| a.set(true));
}

/// Update the index vector of the published case (cheap; called once per history / schedule).
#[inline]
pub fn set_idx(idx: &[usize]) {
  let p = CTX.with(|c| c.get());
  if p.is_null() {
    return;
  }
  unsafe {
    let c = &mut *p;
    let n = idx.len().min(24);
    for i in 0..n {
      c.idx[i] = idx[i] as u32;
    }
    c.n = n;
    c.seq.fetch_add(1, Ordering::Relaxed);
  }
}

pub fn clear_case() {
  ACTIVE.with(|a| a.set(false));
  let p = CTX.with(|c| c.get());
  if !p.is_null() {
    unsafe { (*p).active.store(false, Ordering::Relaxed) };
  }
}

static REGISTRY: std::sync::Mutex<Vec<usize>> = std::sync::Mutex::new(Vec::new());

/// seconds a worker may stay on one published case before the run is declared hung
pub fn hang_secs() -> u64 {
  std::env::var("VERIF_HANG_SECS").ok().and_then(|s| s.parse().ok()).unwrap_or(90)
}

/// Watchdog: a worker that stays on the same case for `hang_secs()` is executing subject code
/// that does not return (the engines themselves spend micro- to milliseconds per case).  The case
/// is written out like a crash and the process exits with CRASH_EXIT; the parent confirms it.
fn start_watchdog() {
  std::thread::spawn(|| {
    let limit = hang_secs();
    let mut last: std::collections::HashMap<usize, (u64, std::time::Instant)> = std::collections::HashMap::new();
    loop {
      std::thread::sleep(std::time::Duration::from_millis(500));
      let regs: Vec<usize> = REGISTRY.lock().unwrap().clone();
      for p in regs {
        let c = unsafe { &*(p as *const Ctx) };
        if !c.active.load(Ordering::Relaxed) {
          last.remove(&p);
          continue;
        }
        let s = c.seq.load(Ordering::Relaxed);
        let now = std::time::Instant::now();
        let e = last.entry(p).or_insert((s, now));
        if e.0 != s {
          *e = (s, now);
        } else if now.duration_since(e.1).as_secs() >= limit {
          unsafe { dump_and_exit(c, 0, limit) };
        }
      }
    }
  });
}

unsafe fn dump_and_exit(ctx: &Ctx, sig: libc::c_int, hung_secs: u64) -> ! {
  unsafe {
    static ENTERED2: std::sync::atomic::AtomicBool = std::sync::atomic::AtomicBool::new(false);
    if ENTERED2.swap(true, Ordering::SeqCst) {
      loop {
        libc::pause();
      }
    }
    let buf: &mut [u8] = &mut *std::ptr::addr_of_mut!(BUF);
    let mut pos = 0;
    put(buf, &mut pos, b"{\"property\":\"");
    let pl = PROPERTY.iter().position(|b| *b == 0).unwrap_or(0);
    put(buf, &mut pos, &PROPERTY[..pl]);
    if sig < 0 {
      put(buf, &mut pos, b"\",\"signature\":\"panic:uncaught");
      put(buf, &mut pos, b"\",\"message\":\"the subject panicked while running this case");
    } else if sig == 0 {
      put(buf, &mut pos, b"\",\"signature\":\"hang:no-return");
      put(buf, &mut pos, b"\",\"message\":\"the subject did not return from this case within ");
      put_num(buf, &mut pos, hung_secs);
      put(buf, &mut pos, b" s");
    } else {
      put(buf, &mut pos, b"\",\"signature\":\"crash:signal-");
      put_num(buf, &mut pos, sig as u64);
      put(buf, &mut pos, b"\",\"message\":\"subject died with signal ");
      put_num(buf, &mut pos, sig as u64);
      put(buf, &mut pos, b" while running this case");
    }
    put(buf, &mut pos, b"\",\"evaluations_before\":");
    put_num(buf, &mut pos, EVALS.load(Ordering::Relaxed));
    put(buf, &mut pos, b",\"case\":");
    put(buf, &mut pos, &ctx.head[..ctx.head_len.min(HEAD_MAX)]);
    put(buf, &mut pos, b",\"idx\":[");
    for i in 0..ctx.n {
      if i > 0 {
        put(buf, &mut pos, b",");
      }
      put_num(buf, &mut pos, ctx.idx[i] as u64);
    }
    put(buf, &mut pos, b"]}}\n");
    let fd = libc::open(std::ptr::addr_of!(OUT_PATH) as *const libc::c_char, libc::O_WRONLY | libc::O_CREAT | libc::O_TRUNC, 0o644);
    if fd >= 0 {
      libc::write(fd, buf.as_ptr() as *const libc::c_void, pos);
      libc::close(fd);
    }
    libc::_exit(CRASH_EXIT);
  }
}

/// An uncaught panic has unwound to the top of the check process.  If some worker was inside a published
/// case, that case is written out like a crash (signature `panic:uncaught`) and the process leaves with
/// CRASH_EXIT so that the parent confirms it by replay; otherwise returns (machinery failure).
pub fn uncaught_panic() {
  let regs: Vec<usize> = REGISTRY.lock().map(|r| r.clone()).unwrap_or_default();
  for p in regs {
    let c = unsafe { &*(p as *const Ctx) };
    if c.active.load(Ordering::Relaxed) {
      unsafe { dump_and_exit(c, -1, 0) };
    }
  }
}

/// `value` serialised as a JSON object, closing brace removed (for `set_case`).
pub fn head_of(v: &serde_json::Value) -> String {
  let mut s = serde_json::to_string(v).unwrap();
  assert!(s.ends_with('}'));
  s.pop();
  s
}

/// Re-run a recorded case alone (`<bin> replay <artefact>`): true when the child dies, reports a
/// violation, or does not come back within `secs` seconds (then it is killed).
pub fn confirm_replay(bin: &std::path::Path, artefact: &std::path::Path, secs: u64) -> bool {
  use std::os::unix::process::ExitStatusExt;
  let mut ch = match std::process::Command::new(bin).arg("replay").arg(artefact).stdout(std::process::Stdio::null()).stderr(std::process::Stdio::null()).spawn() {
    Ok(c) => c,
    Err(_) => return false,
  };
  let t0 = std::time::Instant::now();
  loop {
    match ch.try_wait() {
      Ok(Some(st)) => return st.signal().is_some() || st.code() == Some(CRASH_EXIT) || st.code() == Some(1) || st.code() == Some(101),
      Ok(None) => {
        if t0.elapsed().as_secs() >= secs {
          let _ = ch.kill();
          let _ = ch.wait();
          return true;
        }
        std::thread::sleep(std::time::Duration::from_millis(100));
      }
      Err(_) => return false,
    }
  }
}
