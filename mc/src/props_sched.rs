//! Properties decided by the schedule explorer (E1): C02, C07, C12, C13 (multi-threaded part).
use crate::report::{par_for_each, Run, Tier};
use crate::sched::*;
use crate::subject::*;
use serde_json::json;
use std::sync::atomic::{AtomicU64, Ordering};

fn prop_c02(class: &str) -> Option<&'static str> {
  match class {
    "overlap" | "out-of-bounds" | "live-write" | "corrupt" | "wild-access" => Some("C02"),
    _ => None,
  }
}
fn prop_c07(class: &str) -> Option<&'static str> {
  match class {
    "hang" | "panic" => Some("C07"),
    _ => None,
  }
}
fn prop_c12(class: &str) -> Option<&'static str> {
  match class {
    "hb-race" | "use-after-free" | "teardown-early" => Some("C12"),
    _ => None,
  }
}
fn prop_c13(class: &str) -> Option<&'static str> {
  match class {
    "teardown-count" | "teardown-early" | "use-after-free" => Some("C13"),
    _ => None,
  }
}

/// thread programs; `Dp` is replaced by DropPre(thread index) (two pre-allocated ranges exist)
#[derive(Clone, Copy, PartialEq, Eq, Debug)]
enum P {
  B16,
  B24,
  U64,
  AB8,
  B16D,
  U64D,
  Dp,
  B16B16,
  DpB16,
  Disc,
  B8U64,
  B24D,
  DiscB16,
  AB8D,
}

fn prog(p: P, t: usize) -> Vec<TOp> {
  use TOp::*;
  match p {
    P::B16 => vec![B(16)],
    P::B24 => vec![B(24)],
    P::U64 => vec![U64],
    P::AB8 => vec![AB(8)],
    P::B16D => vec![B(16), DropOwn],
    P::U64D => vec![U64, DropOwn],
    P::Dp => vec![DropPre(t as u8)],
    P::B16B16 => vec![B(16), B(16)],
    P::DpB16 => vec![DropPre(t as u8), B(16)],
    P::Disc => vec![Discard],
    P::B8U64 => vec![B(8), U64],
    P::B24D => vec![B(24), DropOwn],
    P::DiscB16 => vec![Discard, B(16)],
    P::AB8D => vec![AB(8), DropOwn],
  }
}

fn uses_pre(p: P) -> bool {
  matches!(p, P::Dp | P::DpB16)
}

fn tuples(menu: &[P], n: usize) -> Vec<Vec<P>> {
  // multisets of size n (thread symmetry), except that programs using a pre-allocated range are
  // tied to a thread index < 2
  let mut out = vec![];
  fn rec(menu: &[P], n: usize, from: usize, cur: &mut Vec<P>, out: &mut Vec<Vec<P>>) {
    if cur.len() == n {
      out.push(cur.clone());
      return;
    }
    for i in from..menu.len() {
      cur.push(menu[i]);
      rec(menu, n, i, cur, out);
      cur.pop();
    }
  }
  rec(menu, n, 0, &mut vec![], &mut out);
  out
    .into_iter()
    .filter_map(|mut t| {
      // put pre-users first; at most two of them
      t.sort_by_key(|p| !uses_pre(*p));
      if t.iter().filter(|p| uses_pre(**p)).count() > 2 {
        None
      } else {
        Some(t)
      }
    })
    .collect()
}

pub fn check(id: &str, tier: Tier) -> i32 {
  let run = Run::new(id, tier, "model_checking");
  let thorough = tier == Tier::Thorough;
  let (prop_of, hb): (fn(&str) -> Option<&'static str>, bool) = match id {
    "C02" => (prop_c02, false),
    "C07" => (prop_c07, false),
    "C12" => (prop_c12, true),
    "C13" => (prop_c13, true),
    _ => unreachable!(),
  };
  let mut items: Vec<(Harness, u8)> = vec![];
  let mut bounds = vec![];
  if id == "C13" {
    crate::props_hist::c13_single_threaded(&run, thorough);
  }
  if id == "C07" {
    // one thread alone: every operation of every history returns (the degenerate schedule, but far deeper
    // histories than the schedule explorer can afford)
    use crate::hist::{Op::*, Sz::*, *};
    let alphabet = vec![B(N(7)), B(N(16)), B(N(24)), B(N(33)), B(R), T(U64), AB(A16, N(9)), BO(N(16)), D(0), D(1), D(2), Disc];
    let depth = if thorough { 6 } else { 5 };
    let spec = Spec { alphabet: alphabet.clone(), depth, oracles: O_TERM, sync: true, unsync: false, diff: false, diff_prop: "C07" };
    let mut cells = vec![];
    for fl in [Fl::Optimistic, Fl::Pessimistic] {
      for (unify, cap, min_seg) in [(true, 256u32, 8u32), (false, 225, 8), (true, 256, 0)] {
        let mut c = Cfg::new(fl, Backend::Vec, unify, cap);
        c.min_seg = min_seg;
        cells.push(c);
      }
    }
    let t0 = std::time::Instant::now();
    explore(&run, &spec, &cells, &fragmented_starts(), "C07");
    bounds.push(json!({"kind": "single-threaded histories under a budget of atomic accesses per operation", "depth": depth, "alphabet": alphabet.iter().map(|o| o.short()).collect::<Vec<_>>(), "cells": cells.len(), "starts": fragmented_starts().len(), "budget_per_operation": TERM_BUDGET, "wall_s": t0.elapsed().as_secs_f64()}));
  }
  if id == "C13" || id == "C12" {
    // clone / drop programs: every thread owns an arena value; teardown happens inside the schedule
    use TOp::*;
    let menu: Vec<Vec<TOp>> = vec![vec![], vec![CloneArena, DropArena], vec![BO(16)], vec![BO(16), DropOwn], vec![B(16), DropOwn, DropArena], vec![DropArena], vec![CloneArena, DropArena, DropArena], vec![BO(24), DropArena, DropOwn]];
    let (b2, b3) = if thorough { (4, 3) } else { (3, 2) };
    for fl in [Fl::Optimistic, Fl::Pessimistic] {
      for shape in [3u8, 0] {
        if id == "C12" && !thorough && (shape == 0 || fl == Fl::Pessimistic) {
          continue;
        }
        for i in 0..menu.len() {
          for j in i..menu.len() {
            items.push((Harness { fl, unify: true, min_seg: 8, cap: 256, shape, progs: vec![menu[i].clone(), menu[j].clone()], own_arenas: true, leave: 0, odd: 0, reserved: 0 }, b2));
            if shape == 3 {
              for k in j..menu.len() {
                items.push((Harness { fl, unify: true, min_seg: 8, cap: 256, shape, progs: vec![menu[i].clone(), menu[j].clone(), menu[k].clone()], own_arenas: true, leave: 0, odd: 0, reserved: 0 }, b3));
              }
            }
          }
        }
      }
    }
    bounds.push(json!({"kind": "clone/drop programs", "pair_bound": b2, "triple_bound": b3, "menu": menu.iter().map(|p| progs_str(&[p.clone()])).collect::<Vec<_>>()}));
    // the threads share ONE arena value by reference (count 1) and create further values from it concurrently:
    // clones and owned handles; the shared value outlives them, so any teardown inside the schedule is early
    let shared: Vec<Vec<TOp>> = vec![vec![CloneArena, DropArena], vec![BO(16), DropOwn], vec![CloneArena, BO(16), DropOwn, DropArena], vec![BO(16)], vec![CloneArena, CloneArena, DropArena, DropArena]];
    let mut scount = 0;
    for fl in [Fl::Optimistic, Fl::None] {
      for i in 0..shared.len() {
        for j in i..shared.len() {
          items.push((Harness { fl, unify: true, min_seg: 8, cap: 256, shape: if fl == Fl::None { 0 } else { 3 }, progs: vec![shared[i].clone(), shared[j].clone()], own_arenas: false, leave: if fl == Fl::None { 64 } else { 0 }, odd: 0, reserved: 0 }, b2));
          scount += 1;
          if thorough || (i == 0 && j <= 1) {
            items.push((Harness { fl, unify: true, min_seg: 8, cap: 256, shape: if fl == Fl::None { 0 } else { 3 }, progs: vec![shared[i].clone(), shared[j].clone(), shared[0].clone()], own_arenas: false, leave: if fl == Fl::None { 64 } else { 0 }, odd: 0, reserved: 0 }, b3));
            scount += 1;
          }
        }
      }
    }
    bounds.push(json!({"kind": "values created concurrently from one shared arena value (count 1)", "harnesses": scount, "pair_bound": b2, "triple_bound": b3}));
  }
  if id != "C13" {
    let menu2: Vec<P> = if id == "C07" { vec![P::B16, P::B24, P::U64, P::AB8, P::B16D, P::U64D, P::Dp, P::B16B16, P::DpB16, P::Disc, P::B8U64, P::DiscB16] } else { vec![P::B16, P::B24, P::U64, P::AB8, P::B16D, P::U64D, P::Dp, P::B16B16, P::DpB16, P::B8U64, P::B24D, P::AB8D] };
    let menu3: Vec<P> = if id == "C07" { vec![P::B16, P::B24, P::U64, P::B16D, P::Dp, P::Disc] } else { vec![P::B16, P::B24, P::U64, P::AB8, P::B16D, P::Dp] };
    let lists: Vec<Fl> = vec![Fl::Optimistic, Fl::Pessimistic];
    let with_none: Vec<Fl> = if id == "C07" { lists.clone() } else { vec![Fl::Optimistic, Fl::Pessimistic, Fl::None] };
    // (threads, bound, free lists, layouts (unify, cap, min_seg), shapes)
    type Pass = (usize, u8, Vec<Fl>, Vec<(bool, u32, u32)>, Vec<u8>);
    let passes: Vec<Pass> = if thorough {
      vec![
        (2, 4, with_none.clone(), vec![(true, 256, 8), (false, 225, 8)], vec![3, 1, 0, 7, 11]),
        (2, 4, lists.clone(), vec![(true, 256, 0), (true, 256, 20)], vec![3, 11, 19]),
        (2, 5, lists.clone(), vec![(true, 256, 8)], vec![3, 11]),
        (3, 3, lists.clone(), vec![(true, 256, 8)], vec![3, 1, 11]),
        (3, 2, lists.clone(), vec![(false, 225, 8), (true, 256, 0)], vec![3, 7, 19]),
        (4, 2, lists.clone(), vec![(true, 256, 8)], vec![3, 11, 19]),
      ]
    } else {
      vec![
        (2, 3, with_none.clone(), vec![(true, 256, 8)], vec![3, 1, 7, 11]),
        (2, 3, lists.clone(), vec![(true, 256, 8)], vec![19, 27]),
        (2, 2, lists.clone(), vec![(true, 256, 8)], vec![0]),
        (2, 3, lists.clone(), vec![(false, 225, 8)], vec![3]),
        (2, 3, lists.clone(), vec![(true, 256, 0)], vec![3]),
        (3, 2, lists.clone(), vec![(true, 256, 8)], vec![3, 11]),
        (4, 1, lists.clone(), vec![(true, 256, 8)], vec![3]),
      ]
    };
    for (nt, bound, fls, layouts, shapes) in &passes {
      let menu4: Vec<P> = if id == "C07" { vec![P::B16, P::B24, P::Dp, P::Disc] } else { vec![P::B16, P::B24, P::U64, P::Dp] };
      let menu = if *nt == 2 { &menu2 } else if *nt == 3 { &menu3 } else { &menu4 };
      let mut count = 0;
      for fl in fls {
        for (unify, cap, min_seg) in layouts {
          for shape in shapes {
            if *fl == Fl::None && *shape != 3 && *shape != 7 {
              continue;
            }
            for tu in tuples(menu, *nt) {
              let progs: Vec<Vec<TOp>> = tu.iter().enumerate().map(|(t, p)| prog(*p, t)).collect();
              items.push((Harness { fl: *fl, unify: *unify, min_seg: *min_seg, cap: *cap, shape: *shape, progs, own_arenas: false, leave: 0, odd: 0, reserved: 0 }, *bound));
              count += 1;
            }
          }
        }
      }
      if *nt == 2 && layouts.contains(&(true, 256, 8)) {
        // the same programs racing on the bump cursor: fresh space left, cursor at an odd residue
        for fl in fls {
          // (the last two: room for the request itself but not for the request plus its alignment padding)
          for (leave, odd, shape) in [(48u32, 3u8, 3u8), (32, 0, 1), (12, 3, 3), (14, 5, 1)] {
            for tu in tuples(menu, 2) {
              let progs: Vec<Vec<TOp>> = tu.iter().enumerate().map(|(t, p)| prog(*p, t)).collect();
              items.push((Harness { fl: *fl, unify: true, min_seg: 8, cap: 256, shape, progs, own_arenas: false, leave, odd, reserved: 0 }, *bound));
              count += 1;
            }
          }
        }
      }
      bounds.push(json!({"kind": "alloc/release programs", "threads": nt, "preemption_bound": bound, "freelists": format!("{:?}", fls), "layouts(unify,cap,min_seg)": layouts, "shapes": shapes, "menu": format!("{:?}", menu), "harnesses": count}));
    }
  }
  if id != "C13" {
    // one thread recycles (allocate, release, allocate again ...) while the other performs a single operation
    // that walks the list; shapes include a free block that is the last thing below the cursor, so that a
    // release can move the cursor back over memory another thread still holds an offset into
    use TOp::*;
    let long: Vec<Vec<TOp>> = vec![vec![B(16), DropOwn, B(24)], vec![B(16), DropOwn, B(16), DropOwn], vec![B(24), DropOwn, B(16)], vec![B(16), DropOwn, U64, B(8)]];
    let mut single: Vec<Vec<TOp>> = vec![vec![B(16)], vec![B(24)], vec![B(100)], vec![DropPre(1)], vec![DropPre(1), B(16)]];
    if id == "C07" {
      single.push(vec![Discard]);
    }
    let bound = if thorough { 3 } else { 2 };
    // 48 / 49: a free block next to the cursor; 3: two blocks large enough to be split
    let shapes: Vec<u8> = if thorough { vec![48, 49, 50, 52, 3, 11] } else { vec![48, 49, 3] };
    let mut count = 0;
    for fl in [Fl::Optimistic, Fl::Pessimistic] {
      for shape in &shapes {
        for l in &long {
          for s1 in &single {
            items.push((Harness { fl, unify: true, min_seg: 8, cap: 256, shape: *shape, progs: vec![l.clone(), s1.clone()], own_arenas: false, leave: 0, odd: 0, reserved: 0 }, bound));
            count += 1;
          }
        }
      }
    }
    // arenas that were cleared, or whose cursor was moved forward, before the threads start; plain layout with a
    // reserved prefix included (every handle stays inside the data area, the prefix keeps its bytes)
    let progs3: Vec<Vec<Vec<TOp>>> = vec![vec![vec![B(16)], vec![B(16)]], vec![vec![B(16), DropOwn], vec![U64]], vec![vec![B(24)], vec![AB(8)]], vec![vec![B(8), B(8)], vec![B(16), DropOwn]]];
    let mut pcount = 0;
    for fl in [Fl::Optimistic, Fl::Pessimistic, Fl::None] {
      for (unify, cap, reserved, shape, leave) in [(false, 230u32, 5u32, 64u8 | 3, 0u32), (true, 256, 0, 64 | 3, 0), (true, 264, 5, 64 | 1, 0), (true, 256, 0, 128 | 3, 48), (false, 225, 0, 128, 64)] {
        for progs in &progs3 {
          items.push((Harness { fl, unify, min_seg: 8, cap, shape, progs: progs.clone(), own_arenas: false, leave, odd: 0, reserved }, 2));
          pcount += 1;
        }
      }
    }
    bounds.push(json!({"kind": "after clear / after a forward seek of the cursor (plain layout with reserved prefix included)", "threads": 2, "preemption_bound": 2, "harnesses": pcount}));
    // values whose alignment (16) is twice that of a free-list node: served from segments whose payload starts
    // at 8 mod 16, next to a thread that walks or changes the list
    let over: Vec<Vec<TOp>> = vec![vec![T16], vec![T16, DropOwn], vec![B(8), T16]];
    let other: Vec<Vec<TOp>> = vec![vec![B(16)], vec![B(24)], vec![U64], vec![DropPre(1)], vec![T16], vec![B(16), DropOwn]];
    let ob = if thorough { 4 } else { 3 };
    let mut ocount = 0;
    for fl in [Fl::Optimistic, Fl::Pessimistic] {
      for shape in [3u8, 11] {
        for o1 in &over {
          for o2 in &other {
            items.push((Harness { fl, unify: true, min_seg: 8, cap: 256, shape, progs: vec![o1.clone(), o2.clone()], own_arenas: false, leave: 0, odd: 0, reserved: 0 }, ob));
            ocount += 1;
          }
        }
      }
    }
    bounds.push(json!({"kind": "16-aligned typed allocations from the list", "threads": 2, "preemption_bound": ob, "harnesses": ocount}));
    bounds.push(json!({"kind": "recycling thread against one walker", "threads": 2, "preemption_bound": bound, "shapes": shapes, "long": long.iter().map(|p| progs_str(&[p.clone()])).collect::<Vec<_>>(), "single": single.iter().map(|p| progs_str(&[p.clone()])).collect::<Vec<_>>(), "harnesses": count}));
  }
  if id != "C13" {
    // blocks at odd offsets and no fresh space: a released 40-byte block offers 27 data bytes behind its padding and
    // node word; requests between that and what a mis-counted segment would offer (28..=32), next to a thread that
    // owns the neighbouring block and gives it back (its last look at its bytes races with whatever the arena does
    // to them)
    use TOp::*;
    let takers: Vec<Vec<TOp>> = vec![vec![B(32)], vec![B(29), DropOwn], vec![B(24)], vec![U64, B(30)]];
    let owners: Vec<Vec<TOp>> = vec![vec![DropPre(0)], vec![DropPre(0), B(16)], vec![B(16)], vec![DropPre(1)]];
    let mut count = 0;
    for fl in [Fl::Optimistic, Fl::Pessimistic] {
      for (odd, shape) in [(3u8, 1u8), (5, 3), (1, 1)] {
        for t in &takers {
          for o in &owners {
            items.push((Harness { fl, unify: true, min_seg: 8, cap: 256, shape, progs: vec![o.clone(), t.clone()], own_arenas: false, leave: 0, odd, reserved: 0 }, if thorough { 4 } else { 3 }));
            count += 1;
          }
        }
      }
    }
    bounds.push(json!({"kind": "blocks at odd offsets, no fresh space: requests around the true data size of a released block, next to the owner of the neighbouring block", "threads": 2, "preemption_bound": if thorough { 4 } else { 3 }, "harnesses": count}));
  }
  if id != "C13" {
    // an owned aligned buffer taken at an odd cursor (alignment padding in front), a neighbour allocated right behind
    // it by the other thread, the buffer given back while it is not on top, and a request that takes the whole of
    // the segment it became (fresh space is used up by then)
    use TOp::*;
    let pairs: Vec<(Vec<TOp>, Vec<TOp>)> = vec![(vec![ABO(8), DropOwn, B(13)], vec![B(21)]), (vec![ABO(8), DropOwn], vec![B(21), B(13)]), (vec![ABO(8), DropOwn, B(12)], vec![U64, B(13)])];
    // (53 bytes of fresh space at a cursor of residue 3: the owned buffer takes 5 + 16, the neighbour 21, and what is
    // left is too little for the last request, which therefore goes to the free list)
    let mut count = 0;
    for (fl, shape) in [(Fl::Optimistic, 0u8), (Fl::Pessimistic, 3)] {
      for (a, b) in &pairs {
        items.push((Harness { fl, unify: true, min_seg: 8, cap: 256, shape, progs: vec![a.clone(), b.clone()], own_arenas: false, leave: 48, odd: 3, reserved: 0 }, if thorough { 4 } else { 3 }));
        count += 1;
      }
    }
    bounds.push(json!({"kind": "owned aligned buffer at an odd cursor, released below a neighbour of the other thread", "threads": 2, "preemption_bound": if thorough { 4 } else { 3 }, "harnesses": count}));
  }
  if id != "C13" {
    // nearly full arenas with the cursor at an odd residue and aligned requests whose size is not a multiple of
    // the alignment: the request itself fits behind the cursor, the request plus its padding does not
    use TOp::*;
    let pairs: Vec<(Vec<TOp>, Vec<TOp>)> = vec![(vec![AB(3)], vec![B(16)]), (vec![AB(3)], vec![AB(5)]), (vec![AB(5), DropOwn], vec![U64]), (vec![AB(3)], vec![DropPre(1)])];
    let mut count = 0;
    for fl in [Fl::Optimistic, Fl::Pessimistic, Fl::None] {
      for (leave, odd) in [(8u32, 3u8), (8, 5), (16, 6)] {
        for (a, b) in &pairs {
          items.push((Harness { fl, unify: true, min_seg: 8, cap: 256, shape: if fl == Fl::None { 0 } else { 3 }, progs: vec![a.clone(), b.clone()], own_arenas: false, leave, odd, reserved: 0 }, 3));
          count += 1;
        }
      }
    }
    bounds.push(json!({"kind": "nearly full arenas, odd cursor, aligned requests of odd size", "threads": 2, "preemption_bound": 3, "harnesses": count}));
  }
  if id != "C13" {
    // regression harnesses: the programs on which the thorough tier found the stale-traversal defect
    // (S13, 3 threads / 3 preemptions), kept in every tier at the bound that exposes them
    use TOp::*;
    let reg: Vec<(Fl, u8, bool, u32, Vec<Vec<TOp>>)> = vec![
      (Fl::Pessimistic, 11, true, 256, vec![vec![B(16)], vec![B(16), DropOwn], vec![B(16), DropOwn]]),
      (Fl::Optimistic, 3, true, 256, vec![vec![B(16), DropOwn], vec![Discard], vec![Discard]]),
      (Fl::Pessimistic, 3, true, 256, vec![vec![B(16), DropOwn], vec![Discard], vec![Discard]]),
      (Fl::Pessimistic, 19, false, 225, vec![vec![B(24)], vec![B(16), DropOwn], vec![Discard]]),
      (Fl::Optimistic, 11, true, 256, vec![vec![B(16)], vec![B(16), DropOwn], vec![B(16), DropOwn]]),
    ];
    for (fl, shape, unify, cap, progs) in reg {
      items.push((Harness { fl, unify, min_seg: 8, cap, shape, progs, own_arenas: false, leave: 0, odd: 0, reserved: 0 }, 3));
    }
    bounds.push(json!({"kind": "regression harnesses (S13)", "threads": 3, "preemption_bound": 3, "harnesses": 5}));
  }
  // ---- executions that are not sequentially consistent: up to `stale` loads read an older message their thread's
  // view still allows (release/acquire view model in hb.rs), on top of the preemption bound; and everywhere: up to
  // `spur` weak compare-exchanges that would succeed fail spuriously
  let spur: u8 = if thorough { 2 } else { 1 };
  let mut witems: Vec<(Harness, u8, u8)> = vec![];
  {
    use TOp::*;
    let (wb, ws) = if thorough { (3u8, 2u8) } else { (2, 1) };
    if id != "C13" {
      let wmenu: Vec<P> = if id == "C07" { vec![P::B16, P::B16D, P::Dp, P::DpB16, P::Disc, P::B24D] } else { vec![P::B16, P::U64, P::B16D, P::Dp, P::DpB16, P::B24D] };
      let mut count = 0;
      for fl in [Fl::Optimistic, Fl::Pessimistic] {
        for shape in [3u8, 11] {
          for tu in tuples(&wmenu, 2) {
            let progs: Vec<Vec<TOp>> = tu.iter().enumerate().map(|(t, p)| prog(*p, t)).collect();
            witems.push((Harness { fl, unify: true, min_seg: 8, cap: 256, shape, progs, own_arenas: false, leave: 0, odd: 0, reserved: 0 }, wb, ws));
            count += 1;
          }
        }
        // fresh space left: the bump cursor and the top release
        for tu in tuples(&[P::B16, P::U64, P::B16D, P::AB8], 2) {
          let progs: Vec<Vec<TOp>> = tu.iter().enumerate().map(|(t, p)| prog(*p, t)).collect();
          witems.push((Harness { fl, unify: true, min_seg: 8, cap: 256, shape: 3, progs, own_arenas: false, leave: 48, odd: 3, reserved: 0 }, wb + 1, ws + 1));
          count += 1;
        }
        if thorough {
          for tu in tuples(&[P::B16, P::B16D, P::Dp], 3) {
            let progs: Vec<Vec<TOp>> = tu.iter().enumerate().map(|(t, p)| prog(*p, t)).collect();
            witems.push((Harness { fl, unify: true, min_seg: 8, cap: 256, shape: 3, progs, own_arenas: false, leave: 0, odd: 0, reserved: 0 }, 2, 1));
            count += 1;
          }
        }
      }
      bounds.push(json!({"kind": "non-SC executions: alloc/release pairs (thorough: and triples)", "preemption_bound": wb, "stale_reads": ws, "spurious_weak_cas_failures": spur, "harnesses": count}));
    }
    if id == "C12" || id == "C13" {
      let menu: Vec<Vec<TOp>> = vec![vec![CloneArena, DropArena], vec![BO(16), DropOwn], vec![B(16), DropOwn, DropArena], vec![DropArena], vec![BO(24), DropArena, DropOwn]];
      let mut count = 0;
      for i in 0..menu.len() {
        for j in i..menu.len() {
          witems.push((Harness { fl: Fl::Optimistic, unify: true, min_seg: 8, cap: 256, shape: 3, progs: vec![menu[i].clone(), menu[j].clone()], own_arenas: true, leave: 0, odd: 0, reserved: 0 }, wb, ws));
          witems.push((Harness { fl: Fl::None, unify: false, min_seg: 8, cap: 225, shape: 0, progs: vec![menu[i].clone(), menu[j].clone()], own_arenas: true, leave: 64, odd: 0, reserved: 0 }, wb, ws));
          count += 2;
        }
      }
      bounds.push(json!({"kind": "non-SC executions: clone/drop programs", "preemption_bound": wb, "stale_reads": ws, "harnesses": count}));
    }
  }
  // the non-SC exploration must not be vacuous and must respect release/acquire: litmus tests on the header atomics
  match litmus() {
    Ok(v) => run.set("non_sc_litmus_selftest", v),
    Err(m) => {
      eprintln!("machinery: self-test of the non-SC exploration failed: {}", m);
      return 2;
    }
  }
  if std::env::var("VERIF_POR_ONLY").is_ok() {
    // (debugging knob: only the pass without a preemption bound)
    items.clear();
    witems.clear();
  }
  let execs = AtomicU64::new(0);
  let events = AtomicU64::new(0);
  let capped = AtomicU64::new(0);
  let maxop = AtomicU64::new(0);
  let max_execs = if thorough { 30_000_000 } else { 3_000_000 };
  let wexecs = AtomicU64::new(0);
  par_for_each(&witems, |_, (h, bound, stale)| {
    if run.stopped() {
      return;
    }
    let xc = ExploreCfg { bound: *bound, hb: true, drain: id == "C02" || id == "C07", prop_of, max_execs, cache: false, stale: *stale, spur, por: false };
    let st = explore(&run, h, &xc, id);
    execs.fetch_add(st.execs, Ordering::Relaxed);
    wexecs.fetch_add(st.execs, Ordering::Relaxed);
    events.fetch_add(st.events, Ordering::Relaxed);
    if st.capped {
      capped.fetch_add(1, Ordering::Relaxed);
    }
  });
  run.set("non_sc_executions", json!(wexecs.load(Ordering::Relaxed)));
  // harnesses whose interleavings were all explored by the pass without a bound (not stopped at the cap): the
  // bounded passes skip them
  let complete: std::sync::Mutex<std::collections::HashSet<Harness>> = Default::default();
  // ---- pairs without a preemption bound: every interleaving of the two programs up to the commutation of
  // independent actions (sleep sets, sched.rs); complete for the harness unless the per-harness cap is hit
  {
    let pmenu: Vec<P> = if id == "C13" {
      vec![]
    } else if id == "C07" {
      if thorough { vec![P::B16, P::B24, P::U64, P::AB8, P::B16D, P::U64D, P::Dp, P::Disc, P::DpB16, P::B16B16, P::DiscB16] } else { vec![P::B16, P::B24, P::U64, P::B16D, P::U64D, P::Dp, P::Disc] }
    } else if thorough {
      vec![P::B16, P::B24, P::U64, P::AB8, P::B16D, P::U64D, P::Dp, P::DpB16, P::B16B16, P::B24D, P::AB8D]
    } else {
      vec![P::B16, P::B24, P::U64, P::AB8, P::B16D, P::U64D, P::Dp]
    };
    let mut pitems: Vec<Harness> = vec![];
    let shapes: Vec<(u8, u32, u8)> = if thorough { vec![(3, 0, 0), (11, 0, 0), (19, 0, 0), (1, 0, 0), (3, 48, 3)] } else { vec![(3, 0, 0), (3, 48, 3)] };
    for fl in [Fl::Optimistic, Fl::Pessimistic] {
      for (shape, leave, odd) in &shapes {
        for tu in tuples(&pmenu, 2) {
          let progs: Vec<Vec<TOp>> = tu.iter().enumerate().map(|(t, p)| prog(*p, t)).collect();
          pitems.push(Harness { fl, unify: true, min_seg: 8, cap: 256, shape: *shape, progs, own_arenas: false, leave: *leave, odd: *odd, reserved: 0 });
        }
      }
    }
    if thorough && id != "C13" {
      // a recycling thread (three operations) against one walker, from shapes with a free block next to the cursor
      use TOp::*;
      let long: Vec<Vec<TOp>> = vec![vec![B(16), DropOwn, B(24)], vec![B(24), DropOwn, B(16)]];
      let mut single: Vec<Vec<TOp>> = vec![vec![B(16)], vec![B(24)], vec![DropPre(1)]];
      if id == "C07" {
        single.push(vec![Discard]);
      }
      for fl in [Fl::Optimistic, Fl::Pessimistic] {
        for shape in [48u8, 3] {
          for l in &long {
            for s1 in &single {
              pitems.push(Harness { fl, unify: true, min_seg: 8, cap: 256, shape, progs: vec![l.clone(), s1.clone()], own_arenas: false, leave: 0, odd: 0, reserved: 0 });
            }
          }
        }
      }
    }
    if !thorough && id != "C13" {
      // a few pairs with two operations in one thread (the thorough tier has them all)
      use TOp::*;
      let mut extra: Vec<(Vec<TOp>, Vec<TOp>)> = vec![(vec![DropPre(0)], vec![DropPre(1), B(16)]), (vec![B(16)], vec![DropPre(1), B(16)]), (vec![B(16), DropOwn], vec![DropPre(1), B(16)])];
      if id == "C07" {
        extra.push((vec![B(16), B(16)], vec![Discard]));
        extra.push((vec![Discard], vec![DropPre(1), B(16)]));
      } else {
        extra.push((vec![U64], vec![DropPre(1), B(16)]));
      }
      for fl in [Fl::Optimistic, Fl::Pessimistic] {
        for (a, b) in &extra {
          pitems.push(Harness { fl, unify: true, min_seg: 8, cap: 256, shape: if fl == Fl::Pessimistic { 11 } else { 3 }, progs: vec![a.clone(), b.clone()], own_arenas: false, leave: 0, odd: 0, reserved: 0 });
        }
      }
    }
    if id == "C13" || id == "C12" {
      // clone / drop programs: every thread owns an arena value (teardown inside the schedule), and values created
      // concurrently from one shared value
      use TOp::*;
      let menu: Vec<Vec<TOp>> = vec![vec![], vec![CloneArena, DropArena], vec![BO(16)], vec![BO(16), DropOwn], vec![B(16), DropOwn, DropArena], vec![DropArena], vec![CloneArena, DropArena, DropArena], vec![BO(24), DropArena, DropOwn], vec![CloneArena, BO(16), DropArena, DropOwn, DropArena]];
      // (fresh space left: the allocations of these programs are bump allocations; what is explored without a
      // bound here is the reference counter and the teardown)
      for fl in [Fl::Optimistic, Fl::None] {
        for i in 0..menu.len() {
          for j in i..menu.len() {
            pitems.push(Harness { fl, unify: fl != Fl::None, min_seg: 8, cap: if fl == Fl::None { 225 } else { 256 }, shape: 0, progs: vec![menu[i].clone(), menu[j].clone()], own_arenas: true, leave: 64, odd: 0, reserved: 0 });
          }
        }
      }
      let shared: Vec<Vec<TOp>> = vec![vec![CloneArena, DropArena], vec![BO(16), DropOwn], vec![CloneArena, BO(16), DropOwn, DropArena], vec![BO(16)], vec![CloneArena, CloneArena, DropArena, DropArena]];
      for fl in [Fl::Optimistic, Fl::None] {
        for i in 0..shared.len() {
          for j in i..shared.len() {
            pitems.push(Harness { fl, unify: true, min_seg: 8, cap: 256, shape: 0, progs: vec![shared[i].clone(), shared[j].clone()], own_arenas: false, leave: 64, odd: 0, reserved: 0 });
          }
        }
      }
    }
    // the longest programs first (they take longest: better balance over the workers)
    pitems.sort_by_key(|h| std::cmp::Reverse(h.progs.iter().map(|p| p.len()).sum::<usize>()));
    let pexecs = AtomicU64::new(0);
    let pblocked = AtomicU64::new(0);
    let pcapped = AtomicU64::new(0);
    let pmax = if thorough { 40_000_000 } else { 1_500_000 };
    let only = std::env::var("VERIF_POR_FILTER").ok();
    par_for_each(&pitems, |_, h| {
      if run.stopped() {
        return;
      }
      if let Some(f) = &only {
        // (debugging knob)
        if progs_str(&h.progs) != *f {
          return;
        }
      }
      let xc = ExploreCfg { bound: 255, hb, drain: id == "C02" || id == "C07", prop_of, max_execs: pmax, cache: false, stale: 0, spur, por: true };
      let st = explore(&run, h, &xc, id);
      execs.fetch_add(st.execs, Ordering::Relaxed);
      pexecs.fetch_add(st.execs, Ordering::Relaxed);
      pblocked.fetch_add(st.blocked, Ordering::Relaxed);
      events.fetch_add(st.events, Ordering::Relaxed);
      if st.capped {
        pcapped.fetch_add(1, Ordering::Relaxed);
      } else {
        complete.lock().unwrap().insert(h.clone());
      }
    });
    bounds.push(json!({"kind": "pairs without a preemption bound (sleep-set reduction): all interleavings up to commutation of independent actions; alloc/release programs (C02, C07, C12) and clone/drop programs (C12, C13)", "spurious_weak_cas_failures": spur, "harnesses": pitems.len(), "menu": format!("{:?}", pmenu), "shapes(shape,leave,odd)": shapes, "executions": pexecs.load(Ordering::Relaxed), "of_which_redundant(sleep-set blocked)": pblocked.load(Ordering::Relaxed), "harnesses_stopped_at_the_cap": pcapped.load(Ordering::Relaxed), "cap_per_harness": pmax}));
    if pcapped.load(Ordering::Relaxed) > 0 {
      capped.fetch_add(pcapped.load(Ordering::Relaxed), Ordering::Relaxed);
    }
  }
  let por_all = std::env::var("VERIF_POR_ALL").is_ok();
  let skipped = AtomicU64::new(0);
  par_for_each(&items, |_, (h, bound)| {
    if run.stopped() {
      return;
    }
    // (debugging knob: the two-thread harnesses of the bounded passes without a bound instead)
    if por_all && h.progs.len() != 2 {
      return;
    }
    if !por_all && complete.lock().unwrap().contains(h) {
      skipped.fetch_add(1, Ordering::Relaxed);
      return;
    }
    let xc = ExploreCfg { bound: if por_all { 255 } else { *bound }, hb, drain: id == "C02" || id == "C07", prop_of, max_execs, cache: false, stale: 0, spur: if por_all { 0 } else { spur }, por: por_all };
    let st = explore(&run, h, &xc, id);
    execs.fetch_add(st.execs, Ordering::Relaxed);
    events.fetch_add(st.events, Ordering::Relaxed);
    maxop.fetch_max(st.max_op_events, Ordering::Relaxed);
    if st.capped {
      capped.fetch_add(1, Ordering::Relaxed);
    }
  });
  run.eval(execs.load(Ordering::Relaxed));
  run.trans(events.load(Ordering::Relaxed));
  run.set("bounded_harnesses_skipped_because_explored_without_a_bound", json!(skipped.load(Ordering::Relaxed)));
  if id == "C12" {
    loom_models(&run);
  }
  if capped.load(Ordering::Relaxed) > 0 {
    run.not_exhaustive(&format!("{} harness(es) stopped at the per-harness cap of {} schedules", capped.load(Ordering::Relaxed), max_execs));
  }
  run.set("harnesses", json!(items.len()));
  run.set("bounds", json!({"preemption_bounds_completed": bounds, "event_cap_per_execution": EVENT_CAP, "solo_budget": SOLO_BUDGET, "max_events_of_one_operation": maxop.load(Ordering::Relaxed)}));
  run.rule("every schedule (switch points = the arena's atomic accesses and Backoff::snooze) with at most the stated number of preemptions, for every harness = (free-list kind, layout, initial free-list shape, program tuple up to thread symmetry); evaluations = schedules executed on the real sync::Arena; transitions = scheduling events; states = distinct (memory image, header, per-thread progress, running thread) at choice points (scheduling points with more than one enabled thread); non-trivial = at least one switch inside an operation, distinct by (harness, final image)");
  run.assume("main passes: sequentially consistent interleavings; non-SC pass: release/acquire view model (stores append to the modification order, loads may read any message their view allows, read-modify-writes read the newest, no load buffering), at most the stated number of stale reads per execution; spurious compare_exchange_weak failures injected up to the stated number per execution");
  run.assume("Backoff replaced by a reporting shim; snooze treated as a voluntary yield; a thread is parked only after a loop iteration that overlapped no memory-changing access");
  run.finish()
}

/// calibration helper: schedule counts per bound for a few harnesses
pub fn calib() -> i32 {
  let run = Run::new("CALIB", Tier::Quick, "model_checking");
  for (name, progs) in [
    ("B16 || B16,D", vec![prog(P::B16, 0), prog(P::B16D, 1)]),
    ("B16,B16 || Dp,B16", vec![prog(P::B16B16, 1), prog(P::DpB16, 0)]),
    ("B16 || B16 || Dp", vec![prog(P::B16, 1), prog(P::B16, 2), prog(P::Dp, 0)]),
    ("B16,D || B24 || U64", vec![prog(P::B16D, 0), prog(P::B24, 1), prog(P::U64, 2)]),
  ] {
    let bounds: Vec<u8> = if std::env::var("CALIB_CACHE").is_ok() { vec![2, 3, 4, 6, 255] } else { (0..=6).collect() };
    for bound in bounds {
      if progs.len() == 3 && bound > 4 && std::env::var("CALIB_CACHE").is_err() {
        continue;
      }
      let h = Harness { fl: Fl::Optimistic, unify: true, min_seg: 8, cap: 256, shape: 3, progs: progs.clone(), own_arenas: false, leave: 0, odd: 0, reserved: 0 };
      let t0 = std::time::Instant::now();
      let xc = ExploreCfg { bound, hb: false, drain: true, prop_of: prop_c02, max_execs: 50_000_000, cache: std::env::var("CALIB_CACHE").is_ok(), stale: 0, spur: 0, por: false };
      let st = explore(&run, &h, &xc, "calib");
      println!("{:24} bound {:3}: {:>10} schedules {:>12} events {:.2}s max_choice_points {} states {} pruned {}", name, bound, st.execs, st.events, t0.elapsed().as_secs_f64(), st.max_choices, st.states, st.pruned);
      if t0.elapsed().as_secs_f64() > 60.0 {
        break;
      }
    }
  }
  0
}

/// calibration / self-test of the sleep-set reduction: the set of outcomes (final memory, per-thread observations)
/// of the reduced exploration must contain that of the plain exploration at every preemption bound
pub fn calibp() -> i32 {
  let run = Run::new("CALIBP", Tier::Quick, "model_checking");
  use TOp::*;
  let maxb: u8 = std::env::var("CALIB_BOUND").ok().and_then(|s| s.parse().ok()).unwrap_or(4);
  for (name, fl, shape, leave, progs) in [
    ("U64 || U64 fresh", Fl::Optimistic, 3u8, 48u32, vec![vec![U64], vec![U64]]),
    ("B16 || U64,D fresh", Fl::Optimistic, 3, 48, vec![vec![B(16)], vec![U64, DropOwn]]),
    ("B16 || Dp", Fl::Optimistic, 1, 0, vec![vec![B(16)], vec![DropPre(1)]]),
    ("B16 || B16", Fl::Optimistic, 3, 0, vec![vec![B(16)], vec![B(16)]]),
    ("B16 || B16,D", Fl::Optimistic, 3, 0, vec![prog(P::B16, 0), prog(P::B16D, 1)]),
    ("B16 || B16,D pess", Fl::Pessimistic, 11, 0, vec![prog(P::B16, 0), prog(P::B16D, 1)]),
    ("B16,B16 || Dp,B16", Fl::Optimistic, 3, 0, vec![prog(P::B16B16, 1), prog(P::DpB16, 0)]),
    ("Disc || B16,D", Fl::Optimistic, 3, 0, vec![vec![Discard], vec![B(16), DropOwn]]),
    ("own: Clone,DropA || BO16,D", Fl::Optimistic, 3, 1000, vec![vec![CloneArena, DropArena], vec![BO(16), DropOwn]]),
    ("own: B16,D,DropA || BO24,DropA,D", Fl::Optimistic, 3, 1000, vec![vec![B(16), DropOwn, DropArena], vec![BO(24), DropArena, DropOwn]]),
    ("own: DropA || Clone,DropA,DropA", Fl::Pessimistic, 3, 1000, vec![vec![DropArena], vec![CloneArena, DropArena, DropArena]]),
  ] {
    let own = leave == 1000;
    let leave = if own { 0 } else { leave };
    let spur: u8 = std::env::var("CALIB_SPUR").ok().and_then(|s| s.parse().ok()).unwrap_or(0);
    let h = Harness { fl, unify: true, min_seg: 8, cap: 256, shape, progs: progs.clone(), own_arenas: own, leave, odd: 0, reserved: 0 };
    let collect = |bound: u8, por: bool| {
      PRECISE_PARK.with(|p| p.set(true));
      OUTCOMES.with(|o| *o.borrow_mut() = Some(Default::default()));
      let t0 = std::time::Instant::now();
      let xc = ExploreCfg { bound, hb: false, drain: false, prop_of: prop_c02, max_execs: 5_000_000, cache: false, stale: 0, spur, por };
      let st = explore(&run, &h, &xc, "calibp");
      let set = OUTCOMES.with(|o| o.borrow_mut().take().unwrap());
      (st, set, t0.elapsed().as_secs_f64())
    };
    let (sp, setp, tp) = collect(255, true);
    println!("{:24} sleep sets: {:>10} executions ({} redundant) {:>12} events {:.2}s outcomes {} capped {}", name, sp.execs, sp.blocked, sp.events, tp, setp.len(), sp.capped);
    for bound in 0..=maxb {
      let (sb, setb, tb) = collect(bound, false);
      let missing = setb.difference(&setp).count();
      println!("{:24}   bound {:3}: {:>10} schedules {:.2}s outcomes {} not-in-reduced {}{}", name, bound, sb.execs, tb, setb.len(), missing, if sb.capped { " (capped)" } else { "" });
      if missing > 0 {
        println!("  !! the reduced exploration misses outcomes");
      }
      if tb > 120.0 {
        break;
      }
    }
  }
  0
}

fn prop_any(class: &str) -> Option<&'static str> {
  match class {
    "machinery" => None,
    _ => Some("C12"),
  }
}

/// calibration helper for the non-SC deviations: schedule counts per (preemptions, stale reads, spurious failures)
pub fn calibw() -> i32 {
  let run = Run::new("CALIBW", Tier::Quick, "model_checking");
  use TOp::*;
  for (name, fl, shape, leave, progs) in [
    ("B16 || B16,D", Fl::Optimistic, 3u8, 0u32, vec![prog(P::B16, 0), prog(P::B16D, 1)]),
    ("B16 || B16,D pess", Fl::Pessimistic, 11, 0, vec![prog(P::B16, 0), prog(P::B16D, 1)]),
    ("B16,B16 || Dp,B16", Fl::Optimistic, 3, 0, vec![prog(P::B16B16, 1), prog(P::DpB16, 0)]),
    ("B16 || U64 fresh", Fl::Optimistic, 3, 48, vec![vec![B(16)], vec![U64]]),
    ("B16 || B16 || Dp", Fl::Optimistic, 3, 0, vec![prog(P::B16, 1), prog(P::B16, 2), prog(P::Dp, 0)]),
  ] {
    for (bound, stale, spur) in [(2u8, 0u8, 0u8), (2, 1, 0), (2, 2, 0), (3, 1, 0), (2, 0, 1), (2, 0, 2), (2, 1, 1), (3, 2, 1)] {
      let h = Harness { fl, unify: true, min_seg: 8, cap: 256, shape, progs: progs.clone(), own_arenas: false, leave, odd: 0, reserved: 0 };
      let t0 = std::time::Instant::now();
      let xc = ExploreCfg { bound, hb: true, drain: true, prop_of: prop_any, max_execs: 20_000_000, cache: false, stale, spur, por: false };
      let st = explore(&run, &h, &xc, "calibw");
      println!("{:24} bound {} stale {} spur {}: {:>10} schedules {:>12} events {:.2}s max_choice_points {}", name, bound, stale, spur, st.execs, st.events, t0.elapsed().as_secs_f64(), st.max_choices);
      if t0.elapsed().as_secs_f64() > 60.0 {
        break;
      }
    }
  }
  run.finish()
}

fn prop_c03(class: &str) -> Option<&'static str> {
  match class {
    "capacity-or-alignment" => Some("C03"),
    _ => None,
  }
}

/// C03 under concurrency: allocations from fresh space racing on the cursor (CAS retries) and
/// from recycled segments, checked for the requested capacity and alignment.
pub fn c03_concurrent(run: &Run, thorough: bool) {
  use TOp::*;
  let menu: Vec<Vec<TOp>> = vec![vec![B(5)], vec![U64], vec![AB(3)], vec![AB(8), B(1)], vec![B(3), U64], vec![U64, AB(1)], vec![B(16), DropOwn, AB(2)]];
  let mut items = vec![];
  for fl in [Fl::Optimistic, Fl::None] {
    for (leave, odd, shape) in [(64u32, 3u8, 0u8), (64, 0, 0), (40, 5, 3), (0, 1, 3)] {
      if fl == Fl::None && leave == 0 {
        continue;
      }
      for i in 0..menu.len() {
        for j in i..menu.len() {
          items.push((Harness { fl, unify: true, min_seg: 8, cap: 320, shape, progs: vec![menu[i].clone(), menu[j].clone()], own_arenas: false, leave, odd, reserved: 0 }, if thorough { 4 } else { 3 }));
          if thorough && leave == 64 {
            for k in j..menu.len().min(4) {
              items.push((Harness { fl, unify: true, min_seg: 8, cap: 320, shape, progs: vec![menu[i].clone(), menu[j].clone(), menu[k].clone()], own_arenas: false, leave, odd, reserved: 0 }, 2));
            }
          }
        }
      }
    }
  }
  let execs = AtomicU64::new(0);
  let events = AtomicU64::new(0);
  par_for_each(&items, |_, (h, bound)| {
    let xc = ExploreCfg { bound: *bound, hb: false, drain: false, prop_of: prop_c03, max_execs: 5_000_000, cache: false, stale: 0, spur: if thorough { 2 } else { 1 }, por: false };
    let st = explore(run, h, &xc, "C03");
    execs.fetch_add(st.execs, Ordering::Relaxed);
    events.fetch_add(st.events, Ordering::Relaxed);
  });
  run.eval(execs.load(Ordering::Relaxed));
  run.trans(events.load(Ordering::Relaxed));
  run.set("concurrent_part", json!({"harnesses": items.len(), "schedules": execs.load(Ordering::Relaxed), "preemption_bound": if thorough { 4 } else { 3 }, "menu": menu.iter().map(|p| progs_str(&[p.clone()])).collect::<Vec<_>>(), "note": "threads allocate from fresh space at odd cursor residues (CAS retry paths) and from recycled segments; every returned handle is checked for the requested capacity and alignment"}));
}

fn prop_c04(class: &str) -> Option<&'static str> {
  match class {
    "out-of-bounds" | "wild-access" | "panic" => Some("C04"),
    _ => None,
  }
}

/// C04 under concurrency: requests racing for the last bytes of fresh space (CAS retry paths of the three
/// bump fast paths) are answered within the capacity or refused; nothing is written outside the arena.
pub fn c04_concurrent(run: &Run, thorough: bool) {
  use TOp::*;
  let menu: Vec<Vec<TOp>> = vec![vec![B(16)], vec![B(24)], vec![U64], vec![AB(8)], vec![T16], vec![BO(16)], vec![B(8), B(8)], vec![B(16), DropOwn]];
  let mut items = vec![];
  for fl in [Fl::None, Fl::Optimistic] {
    // (fresh bytes left, cursor residue)
    for (leave, odd) in [(16u32, 0u8), (24, 0), (16, 3), (24, 5), (40, 1)] {
      for i in 0..menu.len() {
        for j in i..menu.len() {
          items.push((Harness { fl, unify: true, min_seg: 8, cap: 256, shape: 0, progs: vec![menu[i].clone(), menu[j].clone()], own_arenas: false, leave, odd, reserved: 0 }, if thorough { 4 } else { 3 }));
          if thorough && leave == 24 {
            for k in j..menu.len().min(4) {
              items.push((Harness { fl, unify: true, min_seg: 8, cap: 256, shape: 0, progs: vec![menu[i].clone(), menu[j].clone(), menu[k].clone()], own_arenas: false, leave, odd, reserved: 0 }, 2));
            }
          }
        }
      }
    }
  }
  let execs = AtomicU64::new(0);
  let events = AtomicU64::new(0);
  par_for_each(&items, |_, (h, bound)| {
    let xc = ExploreCfg { bound: *bound, hb: false, drain: false, prop_of: prop_c04, max_execs: 5_000_000, cache: false, stale: 0, spur: if thorough { 2 } else { 1 }, por: false };
    let st = explore(run, h, &xc, "C04");
    execs.fetch_add(st.execs, Ordering::Relaxed);
    events.fetch_add(st.events, Ordering::Relaxed);
  });
  run.eval(execs.load(Ordering::Relaxed));
  run.trans(events.load(Ordering::Relaxed));
  run.set("concurrent_part", json!({"harnesses": items.len(), "schedules": execs.load(Ordering::Relaxed), "preemption_bound": if thorough { 4 } else { 3 }, "menu": menu.iter().map(|p| progs_str(&[p.clone()])).collect::<Vec<_>>(), "note": "two (thorough: also three) threads race for the last 16-40 bytes of fresh space at several cursor residues; every returned handle must lie below the capacity and every zeroing write inside the arena"}));
}

fn prop_c15(class: &str) -> Option<&'static str> {
  match class {
    "reader-bounds" => Some("C15"),
    _ => None,
  }
}

/// C15 under concurrency: what an observer sees (cursor, slice lengths, reader bounds) while other threads
/// allocate, fail to allocate (requests larger than what is left, up to u32::MAX) and release.
pub fn c15_concurrent(run: &Run, thorough: bool) {
  use TOp::*;
  let actors: Vec<Vec<TOp>> = vec![vec![B(16)], vec![B(300)], vec![B(u32::MAX)], vec![B(u32::MAX - 100)], vec![U64], vec![AB(400)], vec![AB(u32::MAX - 8)], vec![B(16), DropOwn], vec![T16], vec![DropPre(1)], vec![B(24), B(300)]];
  let mut items = vec![];
  for fl in [Fl::Optimistic, Fl::None] {
    for (leave, odd, shape) in [(24u32, 0u8, 0u8), (16, 3, 3), (0, 0, 3)] {
      if fl == Fl::None && shape != 0 {
        continue;
      }
      for unify in [true, false] {
        for act in &actors {
          items.push((Harness { fl, unify, min_seg: 8, cap: if unify { 256 } else { 225 }, shape, progs: vec![act.clone(), vec![Probe]], own_arenas: false, leave, odd, reserved: 0 }, if thorough { 4 } else { 3 }));
          if thorough {
            items.push((Harness { fl, unify, min_seg: 8, cap: if unify { 256 } else { 225 }, shape, progs: vec![act.clone(), vec![Probe], vec![B(300)]], own_arenas: false, leave, odd, reserved: 0 }, 2));
          }
        }
      }
    }
  }
  // two allocating threads race for the last bytes (every flavour of call, room for exactly one of them); each
  // looks at the cursor, the slices and the readers afterwards, and a third thread does so all along
  let racers: Vec<Vec<TOp>> = vec![vec![B(8), Probe], vec![U64, Probe], vec![AB(0), Probe], vec![T16, Probe], vec![B(9), Probe]];
  for fl in [Fl::Optimistic, Fl::None] {
    for (leave, odd) in [(8u32, 0u8), (12, 0), (16, 5)] {
      for i in 0..racers.len() {
        for j in i..racers.len() {
          items.push((Harness { fl, unify: true, min_seg: 8, cap: 256, shape: 0, progs: vec![racers[i].clone(), racers[j].clone()], own_arenas: false, leave, odd, reserved: 0 }, if thorough { 4 } else { 3 }));
          if thorough || (i == j && leave == 8) {
            items.push((Harness { fl, unify: true, min_seg: 8, cap: 256, shape: 0, progs: vec![racers[i].clone(), racers[j].clone(), vec![Probe]], own_arenas: false, leave, odd, reserved: 0 }, 2));
          }
        }
      }
    }
  }
  let execs = AtomicU64::new(0);
  let events = AtomicU64::new(0);
  par_for_each(&items, |_, (h, bound)| {
    let xc = ExploreCfg { bound: *bound, hb: false, drain: false, prop_of: prop_c15, max_execs: 5_000_000, cache: false, stale: 0, spur: if thorough { 2 } else { 1 }, por: false };
    let st = explore(run, h, &xc, "C15");
    execs.fetch_add(st.execs, Ordering::Relaxed);
    events.fetch_add(st.events, Ordering::Relaxed);
  });
  run.eval(execs.load(Ordering::Relaxed));
  run.set("concurrent_part", json!({"harnesses": items.len(), "schedules": execs.load(Ordering::Relaxed), "preemption_bound": if thorough { 4 } else { 3 }, "actors": actors.iter().map(|p| progs_str(&[p.clone()])).collect::<Vec<_>>(), "note": "an observer thread reads the cursor, the slices and two readers at every possible point of another thread's allocation (succeeding, failing, wrapping-size) or release"}));
}

fn prop_c08(class: &str) -> Option<&'static str> {
  match class {
    "not-zeroed" => Some("C08"),
    _ => None,
  }
}

/// C08 under concurrency: buffers that other threads filled and released (from the top of the arena or
/// into the free list) while the allocating call was in flight must still come back zero-filled.
pub fn c08_concurrent(run: &Run, thorough: bool) {
  use TOp::*;
  // (B(30): more than the 27 data bytes of a 40-byte block released at an odd offset, less than the 32 an unpadded count gives)
  let menu: Vec<Vec<TOp>> = vec![vec![B(16)], vec![B(16), DropOwn], vec![B(24)], vec![BO(16), DropOwn], vec![B(16), DropOwn, B(16)], vec![DropPre(1)], vec![B(8), B(8)], vec![B(30)], vec![B(16), DropOwn, B(24)], vec![U64], vec![T16], vec![B(5), B(16)]];
  let mut items = vec![];
  for fl in [Fl::Optimistic, Fl::Pessimistic, Fl::None] {
    // (fresh bytes left, cursor residue, free-list shape); the last one: room for a typed value next to byte buffers
    // of odd sizes (a value that sticks out of its block shares bytes with the next buffer)
    for (leave, odd, shape) in [(16u32, 0u8, 0u8), (24, 0, 1), (16, 3, 3), (0, 0, 3), (56, 0, 0)] {
      if fl == Fl::None && shape != 0 {
        continue;
      }
      for i in 0..menu.len() {
        for j in i..menu.len() {
          if menu[i] == vec![DropPre(1)] && menu[j] == vec![DropPre(1)] {
            continue;
          }
          items.push((Harness { fl, unify: true, min_seg: 8, cap: 256, shape, progs: vec![menu[j].clone(), menu[i].clone()], own_arenas: false, leave, odd, reserved: 0 }, if thorough { 4 } else { 3 }));
        }
      }
    }
  }
  let execs = AtomicU64::new(0);
  let events = AtomicU64::new(0);
  par_for_each(&items, |_, (h, bound)| {
    let xc = ExploreCfg { bound: *bound, hb: false, drain: false, prop_of: prop_c08, max_execs: 5_000_000, cache: false, stale: 0, spur: if thorough { 2 } else { 1 }, por: false };
    let st = explore(run, h, &xc, "C08");
    execs.fetch_add(st.execs, Ordering::Relaxed);
    events.fetch_add(st.events, Ordering::Relaxed);
  });
  run.eval(execs.load(Ordering::Relaxed));
  run.trans(events.load(Ordering::Relaxed));
  run.set("concurrent_part", json!({"harnesses": items.len(), "schedules": execs.load(Ordering::Relaxed), "preemption_bound": if thorough { 4 } else { 3 }, "menu": menu.iter().map(|p| progs_str(&[p.clone()])).collect::<Vec<_>>(), "note": "two threads allocate, fill and release around the last bytes of fresh space and the free list; every buffer returned by alloc_bytes / alloc_bytes_owned is scanned for non-zero bytes before the harness fills it"}));
}

/// C12, relaxed-memory part: loom models of the bump cursor and the reference counter (built by
/// bin/check from /verif/loomcheck against the subject's own `loom` feature).
fn loom_models(run: &Run) {
  let Ok(bin) = std::env::var("VERIF_LOOM_BIN") else {
    run.not_exhaustive("loom harness not available (VERIF_LOOM_BIN unset): sequentially consistent interleavings only");
    return;
  };
  let list = std::process::Command::new(&bin).arg("list").output().expect("loom harness list");
  let models: Vec<String> = String::from_utf8_lossy(&list.stdout).lines().map(|s| s.to_string()).collect();
  let mut report = vec![];
  for m in &models {
    let out = std::process::Command::new(&bin).arg(m).output().expect("run loom model");
    let text = format!("{}{}", String::from_utf8_lossy(&out.stdout), String::from_utf8_lossy(&out.stderr));
    let iters: u64 = text.lines().find_map(|l| l.strip_prefix("ITERATIONS ").and_then(|x| x.trim().parse().ok())).unwrap_or(0);
    run.eval(iters);
    run.trans(iters);
    let ok = out.status.code() == Some(0);
    report.push(json!({"model": m, "executions": iters, "ok": ok}));
    if !ok {
      if out.status.code() != Some(1) {
        eprintln!("machinery: loom model {} ended with {:?}", m, out.status);
        std::process::exit(2);
      }
      let why = text.lines().rev().find(|l| l.contains("Causality violation") || l.contains("panicked") || l.contains("assertion")).unwrap_or("").to_string();
      let class = if m.starts_with("recycle") { "recycled-range" } else { "teardown" };
      run.violation(crate::report::Violation { property: "C12".into(), signature: format!("C12:loom:{}:{}", class, m), message: format!("loom model '{}' found an execution (C11 memory model, orderings as written in the library) in which conflicting accesses are not ordered by happens-before: {}", m, why), replay: json!({"engine": "loom", "model": m}) });
    }
  }
  run.set("loom_models", json!(report));
  run.assume("loom part: plain layout, Freelist::None (free-list nodes are raw memory and cannot be modelled by loom); 2 threads");
}

pub fn replay_loom(case: &serde_json::Value) -> i32 {
  let Ok(bin) = std::env::var("VERIF_LOOM_BIN") else {
    eprintln!("machinery: VERIF_LOOM_BIN unset (run through bin/check)");
    return 2;
  };
  let m = case["model"].as_str().unwrap_or("");
  let st = std::process::Command::new(&bin).arg(m).status().expect("run loom model");
  st.code().unwrap_or(2)
}
