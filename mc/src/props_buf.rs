//! C14 — buffer writers / readers: exhaustive small-scope grid on real handles.
use crate::layouts::{with_layout, LayoutVisitor, LAYOUTS};
use crate::report::{hash_of, par_for_each, Run, Tier, Violation};
use crate::subject::*;
use rarena_allocator::{sync, unsync, Allocator, Buffer, BytesMut, BytesRefMut};
use serde_json::json;
use std::io::Write;

/// where the buffer under test comes from
#[derive(Clone, Copy, Debug, PartialEq, Eq, Hash, serde::Serialize)]
pub enum Src {
  /// alloc_bytes(cap) with the cursor at residue r
  Fresh(u32),
  /// alloc_aligned_bytes::<u64>(cap-8) with the cursor at an odd residue (accessible != buffer range)
  Padded(u32),
  /// alloc_bytes(cap) served from a recycled segment (accessible range starts 8 bytes into the buffer range)
  Recycled(u32),
  /// the same with a large minimum segment size: the segment is 24 bytes longer than the request and the
  /// remainder is not split off, so the buffer range ends 16 bytes behind the accessible range
  Slack(u32),
}

struct Case<A: Subject> {
  arena: Box<A>,
  dof: usize,
  /// the pattern-filled allocations in front of and behind the buffer under test
  neighbours: Vec<(usize, usize)>,
}

/// Build an arena and return a buffer of `cap` bytes from `src`, followed by a live pattern-filled
/// neighbour so that any write past the end is visible.
fn make<A: Subject>(src: Src, cap: u32, owned: bool) -> Option<(Case<A>, Box<dyn BufLike>)> {
  let mut cfg = Cfg::new(Fl::Optimistic, Backend::Vec, true, 256);
  if matches!(src, Src::Slack(_)) {
    cfg.min_seg = 40;
  }
  let arena: Box<A> = Box::new(build::<A>(&cfg, None).ok()?);
  let a: &'static A = unsafe { &*(&*arena as *const A) };
  let dof = cfg.data_offset();
  let neighbours = std::cell::RefCell::new(vec![]);
  let keep = |n: u32| {
    if n > 0 {
      let mut b = a.alloc_bytes(n).unwrap();
      unsafe { b.detach() };
      let (o, c, ..) = meta_of(&b);
      unsafe { std::ptr::write_bytes(a.raw_mut_ptr().add(o), 0xEE, c) };
      neighbours.borrow_mut().push((o, c));
    }
  };
  let b: Box<dyn BufLike> = match src {
    Src::Fresh(r) => {
      keep(r);
      if owned {
        Box::new(OwnedB(a.alloc_bytes_owned(cap).ok()?))
      } else {
        Box::new(RefB(a.alloc_bytes(cap).ok()?))
      }
    }
    Src::Padded(r) => {
      if cap < 8 {
        return None;
      }
      keep(r);
      if owned {
        Box::new(OwnedB(a.alloc_aligned_bytes_owned::<u64>(cap - 8).ok()?))
      } else {
        Box::new(RefB(a.alloc_aligned_bytes::<u64>(cap - 8).ok()?))
      }
    }
    Src::Slack(r) => {
      keep(r);
      // the block must itself be listable: cap + 32 bytes hold a node and at least the minimum of 40
      let mut blk = a.alloc_bytes(cap.max(16) + 32).ok()?;
      unsafe { blk.detach() };
      let bm = meta_of(&blk);
      drop(blk);
      keep(a.remaining() as u32);
      unsafe { a.dealloc(bm.2 as u32, bm.3 as u32) };
      let b: Box<dyn BufLike> = if owned { Box::new(OwnedB(a.alloc_bytes_owned(cap).ok()?)) } else { Box::new(RefB(a.alloc_bytes(cap).ok()?)) };
      // not a case if the remainder was split off after all
      let m = b.meta();
      if m.2 + m.3 <= m.0 + m.1 {
        return None;
      }
      b
    }
    Src::Recycled(r) => {
      // [r bytes][block of cap+8+r' ..][rest] ; free the block, exhaust fresh space, allocate cap from the list
      keep(r);
      let mut blk = a.alloc_bytes(cap + 16).ok()?;
      unsafe { blk.detach() };
      let bm = meta_of(&blk);
      drop(blk);
      keep(a.remaining() as u32);
      unsafe { a.dealloc(bm.2 as u32, bm.3 as u32) };
      if owned {
        Box::new(OwnedB(a.alloc_bytes_owned(cap).ok()?))
      } else {
        Box::new(RefB(a.alloc_bytes(cap).ok()?))
      }
    }
  };
  // neighbour after the buffer (fresh sources only have free space behind them otherwise)
  keep((a.remaining() as u32).min(24));
  let neighbours = neighbours.into_inner();
  Some((Case { arena, dof, neighbours }, b))
}

/// the generated method family, uniformly over the two handle types
pub trait BufLike {
  fn meta(&self) -> Meta4;
  fn len_(&self) -> usize;
  fn set_len_(&mut self, n: usize);
  fn put_slice_(&mut self, s: &[u8]) -> bool;
  fn io_write(&mut self, s: &[u8]) -> Result<usize, ()>;
  fn put_u8_(&mut self, v: u8) -> bool;
  fn put_i8_(&mut self, v: i8) -> bool;
  fn get_u8_(&mut self) -> Option<u8>;
  fn get_i8_(&mut self) -> Option<i8>;
  fn align_to_l(&mut self, align: u32, size: u32) -> Result<usize, ()>;
  fn put_l(&mut self, align: u32, size: u32, aligned: bool) -> Result<usize, ()>;
  fn varint(&mut self, ty: u8, v: i128) -> (Result<usize, ()>, Option<(usize, i128)>);
  /// order: 0 be, 1 le, 2 ne; via: 0 put, 1 write
  fn put_int(&mut self, ty: &str, order: u8, via: u8, v: u128) -> bool;
  fn get_int(&mut self, ty: &str, order: u8) -> Option<u128>;
}

pub struct RefB<A: Allocator + 'static>(BytesRefMut<'static, A>);
pub struct OwnedB<A: Allocator>(BytesMut<A>);

macro_rules! impl_buflike {
  ($wrap:ident; $( ($ty:ident, $put_be:ident, $put_le:ident, $put_ne:ident, $get_be:ident, $get_le:ident, $get_ne:ident, $w_be:ident, $w_le:ident, $w_ne:ident) ),*) => {
    impl<A: Subject> BufLike for $wrap<A> {
      fn meta(&self) -> Meta4 { meta_of(&self.0) }
      fn len_(&self) -> usize { self.0.len() }
      fn set_len_(&mut self, n: usize) { self.0.set_len(n) }
      fn put_slice_(&mut self, s: &[u8]) -> bool { self.0.put_slice(s).is_ok() }
      fn io_write(&mut self, s: &[u8]) -> Result<usize, ()> { self.0.write(s).map_err(|_| ()) }
      fn put_u8_(&mut self, v: u8) -> bool { self.0.put_u8(v).is_ok() }
      fn put_i8_(&mut self, v: i8) -> bool { self.0.put_i8(v).is_ok() }
      fn get_u8_(&mut self) -> Option<u8> { self.0.get_u8().ok() }
      fn get_i8_(&mut self) -> Option<i8> { self.0.get_i8().ok() }
      fn align_to_l(&mut self, align: u32, size: u32) -> Result<usize, ()> {
        struct V<'x, A: Subject>(&'x mut $wrap<A>);
        impl<A: Subject> LayoutVisitor<Result<usize, ()>> for V<'_, A> {
          fn visit<T: Copy + 'static>(&mut self) -> Result<usize, ()> { (self.0).0.align_to::<T>().map(|p| p.as_ptr() as usize).map_err(|_| ()) }
        }
        with_layout(align, size, &mut V(self))
      }
      fn put_l(&mut self, align: u32, size: u32, aligned: bool) -> Result<usize, ()> {
        struct V<'x, A: Subject>(&'x mut $wrap<A>, bool);
        impl<A: Subject> LayoutVisitor<Result<usize, ()>> for V<'_, A> {
          fn visit<T: Copy + 'static>(&mut self) -> Result<usize, ()> {
            // a value whose bytes are all 0x5A
            let val: T = unsafe { let mut m = std::mem::MaybeUninit::<T>::uninit(); std::ptr::write_bytes(m.as_mut_ptr() as *mut u8, 0x5A, std::mem::size_of::<T>()); m.assume_init() };
            unsafe { if self.1 { (self.0).0.put_aligned::<T>(val).map(|p| p as *mut T as usize).map_err(|_| ()) } else { (self.0).0.put::<T>(val).map(|p| p as *mut T as usize).map_err(|_| ()) } }
          }
        }
        with_layout(align, size, &mut V(self, aligned))
      }
      fn varint(&mut self, ty: u8, v: i128) -> (Result<usize, ()>, Option<(usize, i128)>) {
        let b = &mut self.0;
        match ty {
          0 => { let r = b.put_u16_varint(v as u16).map_err(|_| ()); let g = b.get_u16_varint().ok().map(|(n, x)| (n, x as i128)); (r, g) }
          1 => { let r = b.put_u32_varint(v as u32).map_err(|_| ()); let g = b.get_u32_varint().ok().map(|(n, x)| (n, x as i128)); (r, g) }
          2 => { let r = b.put_u64_varint(v as u64).map_err(|_| ()); let g = b.get_u64_varint().ok().map(|(n, x)| (n, x as i128)); (r, g) }
          3 => { let r = b.put_u128_varint(v as u128).map_err(|_| ()); let g = b.get_u128_varint().ok().map(|(n, x)| (n, x as i128)); (r, g) }
          4 => { let r = b.put_i16_varint(v as i16).map_err(|_| ()); let g = b.get_i16_varint().ok().map(|(n, x)| (n, x as i128)); (r, g) }
          5 => { let r = b.put_i32_varint(v as i32).map_err(|_| ()); let g = b.get_i32_varint().ok().map(|(n, x)| (n, x as i128)); (r, g) }
          6 => { let r = b.put_i64_varint(v as i64).map_err(|_| ()); let g = b.get_i64_varint().ok().map(|(n, x)| (n, x as i128)); (r, g) }
          _ => { let r = b.put_i128_varint(v).map_err(|_| ()); let g = b.get_i128_varint().ok().map(|(n, x)| (n, x)); (r, g) }
        }
      }
      fn put_int(&mut self, ty: &str, order: u8, via: u8, v: u128) -> bool {
        let b = &mut self.0;
        match (ty, order, via) {
          $(
            (stringify!($ty), 0, 0) => b.$put_be(v as $ty).is_ok(),
            (stringify!($ty), 1, 0) => b.$put_le(v as $ty).is_ok(),
            (stringify!($ty), 2, 0) => b.$put_ne(v as $ty).is_ok(),
            (stringify!($ty), 0, _) => b.$w_be(v as $ty).is_ok(),
            (stringify!($ty), 1, _) => b.$w_le(v as $ty).is_ok(),
            (stringify!($ty), 2, _) => b.$w_ne(v as $ty).is_ok(),
          )*
          _ => unreachable!(),
        }
      }
      fn get_int(&mut self, ty: &str, order: u8) -> Option<u128> {
        let b = &mut self.0;
        match (ty, order) {
          $(
            (stringify!($ty), 0) => b.$get_be().ok().map(|x| x as u128),
            (stringify!($ty), 1) => b.$get_le().ok().map(|x| x as u128),
            (stringify!($ty), 2) => b.$get_ne().ok().map(|x| x as u128),
          )*
          _ => unreachable!(),
        }
      }
    }
  };
}

macro_rules! with_ints {
  ($cb:ident, $w:ident) => {
    $cb!($w;
      (u16, put_u16_be, put_u16_le, put_u16_ne, get_u16_be, get_u16_le, get_u16_ne, write_u16_be, write_u16_le, write_u16_ne),
      (u32, put_u32_be, put_u32_le, put_u32_ne, get_u32_be, get_u32_le, get_u32_ne, write_u32_be, write_u32_le, write_u32_ne),
      (u64, put_u64_be, put_u64_le, put_u64_ne, get_u64_be, get_u64_le, get_u64_ne, write_u64_be, write_u64_le, write_u64_ne),
      (u128, put_u128_be, put_u128_le, put_u128_ne, get_u128_be, get_u128_le, get_u128_ne, write_u128_be, write_u128_le, write_u128_ne),
      (usize, put_usize_be, put_usize_le, put_usize_ne, get_usize_be, get_usize_le, get_usize_ne, write_usize_be, write_usize_le, write_usize_ne),
      (i16, put_i16_be, put_i16_le, put_i16_ne, get_i16_be, get_i16_le, get_i16_ne, write_i16_be, write_i16_le, write_i16_ne),
      (i32, put_i32_be, put_i32_le, put_i32_ne, get_i32_be, get_i32_le, get_i32_ne, write_i32_be, write_i32_le, write_i32_ne),
      (i64, put_i64_be, put_i64_le, put_i64_ne, get_i64_be, get_i64_le, get_i64_ne, write_i64_be, write_i64_le, write_i64_ne),
      (i128, put_i128_be, put_i128_le, put_i128_ne, get_i128_be, get_i128_le, get_i128_ne, write_i128_be, write_i128_le, write_i128_ne),
      (isize, put_isize_be, put_isize_le, put_isize_ne, get_isize_be, get_isize_le, get_isize_ne, write_isize_be, write_isize_le, write_isize_ne)
    );
  };
}
with_ints!(impl_buflike, RefB);
with_ints!(impl_buflike, OwnedB);

const INT_TYPES: [(&str, usize, bool); 10] = [("u16", 2, false), ("u32", 4, false), ("u64", 8, false), ("u128", 16, false), ("usize", 8, false), ("i16", 2, true), ("i32", 4, true), ("i64", 8, true), ("i128", 16, true), ("isize", 8, true)];

fn values(size: usize) -> Vec<u128> {
  let bits = size * 8;
  let mask: u128 = if bits == 128 { u128::MAX } else { (1u128 << bits) - 1 };
  let mut v = vec![0u128, 1, mask /* -1 / MAX */, 1u128 << (bits - 1) /* MIN */, (1u128 << (bits - 1)) - 1 /* signed MAX */];
  // the byte-distinct pattern 0x0102...
  let mut p: u128 = 0;
  for i in 0..size {
    p = (p << 8) | (i as u128 + 1);
  }
  v.push(p);
  for k in [7usize, 8, 15, 31, 63] {
    if k < bits {
      v.push((1u128 << k) + 1);
      v.push((1u128 << k) - 1);
    }
  }
  v.iter().map(|x| x & mask).collect::<std::collections::BTreeSet<_>>().into_iter().collect()
}

fn encode(v: u128, size: usize, order: u8) -> Vec<u8> {
  let be: Vec<u8> = (0..size).rev().map(|i| (v >> (8 * i)) as u8).collect();
  match order {
    0 => be,
    1 => be.into_iter().rev().collect(),
    _ => {
      if cfg!(target_endian = "little") {
        be.into_iter().rev().collect()
      } else {
        be
      }
    }
  }
}

fn leb_unsigned(mut v: u128) -> Vec<u8> {
  let mut out = vec![];
  loop {
    let b = (v & 0x7f) as u8;
    v >>= 7;
    if v == 0 {
      out.push(b);
      return out;
    }
    out.push(b | 0x80);
  }
}

struct Ctx<'r> {
  run: &'r Run,
  flavour: &'static str,
  owned: bool,
  src: Src,
  cap: u32,
}

impl Ctx<'_> {
  fn bad(&self, class: &str, method: &str, msg: String) {
    self.run.violation(Violation {
      property: "C14".into(),
      signature: format!("C14:{}:{}", class, method),
      message: format!("[{} {} buffer from {:?} capacity {}] {}: {}", self.flavour, if self.owned { "owned" } else { "borrowed" }, self.src, self.cap, method, msg),
      replay: json!({"engine": "buf", "flavour": self.flavour, "owned": self.owned, "src": self.src, "cap": self.cap, "method": method}),
    });
  }
}

fn image<A: Subject>(c: &Case<A>) -> Vec<u8> {
  c.arena.memory().to_vec()
}

/// differences between two images as a list of changed offsets
fn changed(a: &[u8], b: &[u8]) -> Vec<usize> {
  a.iter().zip(b.iter()).enumerate().filter(|(_, (x, y))| x != y).map(|(i, _)| i).collect()
}

fn run_case<A: Subject>(ctx: &Ctx, only: Option<&str>) -> u64 {
  let mut evals = 0u64;
  let cap = ctx.cap as usize;
  // a fresh buffer for every (method, fill level): cheap, and keeps cases independent
  let fresh = |len: usize| -> Option<(Case<A>, Box<dyn BufLike>)> {
    let (c, mut b) = make::<A>(ctx.src, ctx.cap, ctx.owned)?;
    // fill level by a pattern of distinct non-zero bytes
    let pat: Vec<u8> = (0..len).map(|i| 0x11 + i as u8).collect();
    if !b.put_slice_(&pat) && len > 0 {
      return None;
    }
    Some((c, b))
  };
  let want = |m: &str| only.map(|o| o == m).unwrap_or(true);
  // the buffer under test is what was asked for: `cap` accessible bytes that belong to nobody else
  if let Some((c, b)) = make::<A>(ctx.src, ctx.cap, ctx.owned) {
    let (off, bcap, ..) = b.meta();
    evals += 1;
    if bcap != cap {
      ctx.bad("capacity-differs-from-request", "alloc", format!("a buffer of {} bytes was requested ({:?}), capacity() = {}", cap, ctx.src, bcap));
    }
    for (o, n) in &c.neighbours {
      if bcap > 0 && off < o + n && *o < off + bcap {
        ctx.bad("buffer-overlaps-neighbour", "alloc", format!("accessible range [{},{}) shares bytes with the live allocation [{},{})", off, off + bcap, o, o + n));
        break;
      }
    }
  }
  for len in 0..=cap {
    // ---- fixed-width integers
    for (ty, size, _signed) in INT_TYPES {
      for order in 0..3u8 {
        for via in 0..2u8 {
          let mname = format!("{}_{}_{}", if via == 0 { "put" } else { "write" }, ty, ["be", "le", "ne"][order as usize]);
          if !want(&mname) {
            continue;
          }
          for v in values(size) {
            let Some((c, mut b)) = fresh(len) else { continue };
            let (off, bcap, ..) = b.meta();
            let before = image(&c);
            let ok = b.put_int(ty, order, via, v);
            let after = image(&c);
            evals += 1;
            let fits = len + size <= bcap;
            if ok != fits {
              ctx.bad("fits", &mname, format!("len {} + {} bytes into capacity {}: returned {}", len, size, bcap, if ok { "Ok" } else { "Err" }));
              continue;
            }
            let ch = changed(&before, &after);
            if !ok {
              if b.len_() != len || !ch.is_empty() {
                ctx.bad("failed-put-effect", &mname, format!("failed put changed len {} -> {} / bytes {:?}", len, b.len_(), ch));
              }
              continue;
            }
            let lo = off + len;
            if ch.iter().any(|i| *i < lo || *i >= lo + size) {
              ctx.bad("out-of-place-write", &mname, format!("bytes changed at {:?}, value belongs at [{},{})", ch, lo, lo + size));
            }
            if after[lo..lo + size] != encode(v, size, order)[..] {
              ctx.bad("encoding", &mname, format!("value {:#x} stored as {:x?}, expected {:x?}", v, &after[lo..lo + size], encode(v, size, order)));
            }
            if b.len_() != len + size {
              ctx.bad("len", &mname, format!("len {} after put at {}", b.len_(), len));
            }
            // round trip with the get of the same type and order
            let g = b.get_int(ty, order);
            let mask: u128 = if size == 16 { u128::MAX } else { (1u128 << (size * 8)) - 1 };
            match g {
              Some(x) if x & mask == v & mask => {
                if b.len_() != len {
                  ctx.bad("roundtrip-len", &format!("get_{}_{}", ty, ["be", "le", "ne"][order as usize]), format!("len {} after put+get from {}", b.len_(), len));
                }
              }
              other => ctx.bad("roundtrip", &format!("get_{}_{}", ty, ["be", "le", "ne"][order as usize]), format!("put {:#x} then get returned {:x?}", v, other.map(|x| x & mask))),
            }
          }
        }
      }
    }
    // ---- u8 / i8
    if want("put_u8") {
      for v in [0u8, 1, 0x7f, 0x80, 0xff] {
        let Some((c, mut b)) = fresh(len) else { continue };
        let (off, bcap, ..) = b.meta();
        let before = image(&c);
        let ok = if v & 1 == 0 { b.put_u8_(v) } else { b.put_i8_(v as i8) };
        let after = image(&c);
        evals += 1;
        let fits = len < bcap;
        let ch = changed(&before, &after);
        if ok != fits || (!ok && (!ch.is_empty() || b.len_() != len)) || (ok && (ch.iter().any(|i| *i != off + len) || after[off + len] != v || b.len_() != len + 1)) {
          ctx.bad("u8", "put_u8", format!("len {} cap {} value {:#x}: ok={} changed {:?} len now {}", len, bcap, v, ok, ch, b.len_()));
          continue;
        }
        if ok {
          let g = if v & 1 == 0 { b.get_u8_() } else { b.get_i8_().map(|x| x as u8) };
          if g != Some(v) || b.len_() != len {
            ctx.bad("roundtrip", "get_u8", format!("put {:#x} got {:?}, len {}", v, g, b.len_()));
          }
        }
      }
    }
    // ---- put_slice / io::Write
    if want("put_slice") {
      for n in 0..=cap + 1 - len.min(cap) {
        for via in 0..2 {
          let Some((c, mut b)) = fresh(len) else { continue };
          let (off, bcap, ..) = b.meta();
          let s: Vec<u8> = (0..n).map(|i| 0xA1u8.wrapping_add(i as u8) | 1).collect();
          let before = image(&c);
          let ok = if via == 0 { b.put_slice_(&s) } else { b.io_write(&s) == Ok(n) };
          let after = image(&c);
          evals += 1;
          let fits = len + n <= bcap;
          let ch = changed(&before, &after);
          if ok != fits {
            ctx.bad("fits", "put_slice", format!("len {} + {} into {}: ok={}", len, n, bcap, ok));
          } else if !ok && (!ch.is_empty() || b.len_() != len) {
            ctx.bad("failed-put-effect", "put_slice", format!("failed put_slice changed bytes {:?} / len {}", ch, b.len_()));
          } else if ok && (ch.iter().any(|i| *i < off + len || *i >= off + len + n) || after[off + len..off + len + n] != s[..] || b.len_() != len + n) {
            ctx.bad("out-of-place-write", "put_slice", format!("changed {:?}, len {}", ch, b.len_()));
          }
        }
      }
    }
    // ---- set_len
    if want("set_len") {
      for n in 0..=cap + 1 {
       for stale in [false, true] {
        let Some((c, mut b)) = fresh(len) else { continue };
        let (off, bcap, ..) = b.meta();
        if stale {
          // bytes that were written and read back again stay in memory above len
          let k = (bcap - len).min(5);
          if k == 0 {
            continue;
          }
          let junk: Vec<u8> = (0..k).map(|i| 0x81 + i as u8).collect();
          b.put_slice_(&junk);
          for _ in 0..k {
            b.get_u8_();
          }
          if b.len_() != len {
            continue;
          }
        }
        let before = image(&c);
        let r = std::panic::catch_unwind(std::panic::AssertUnwindSafe(|| b.set_len_(n)));
        let after = image(&c);
        evals += 1;
        let ch = changed(&before, &after);
        if n > bcap {
          if r.is_ok() || !ch.is_empty() {
            ctx.bad("set-len-beyond", "set_len", format!("set_len({}) on capacity {}: returned normally={} changed {:?}", n, bcap, r.is_ok(), ch));
          }
          continue;
        }
        if r.is_err() {
          ctx.bad("set-len-panic", "set_len", format!("set_len({}) within capacity {} panicked", n, bcap));
          continue;
        }
        let (lo, hi) = (len.min(n), len.max(n));
        if b.len_() != n || ch.iter().any(|i| *i < off + lo || *i >= off + hi) || after[off + lo..off + hi].iter().any(|x| *x != 0) {
          ctx.bad(if stale { "set-len-zero-after-get" } else { "set-len-zero" }, "set_len", format!("set_len {} -> {}: len {}, changed {:?}, exposed/hidden bytes {:x?}", len, n, b.len_(), ch, &after[off + lo..off + hi]));
        }
       }
      }
    }
    // ---- varint puts at this fill level: in bounds or refused without effect
    if want("varint") && len > 0 {
      for (ty, x) in [(0u8, 300i128), (1, 300_000), (1, 5), (2, 1 << 40), (3, -1), (5, -70_000), (6, i64::MIN as i128), (7, 1 << 100)] {
        let Some((c, mut b)) = fresh(len) else { continue };
        let (off, bcap, ..) = b.meta();
        let before = image(&c);
        let (r, _) = b.varint(ty, x);
        let after = image(&c);
        evals += 1;
        let ch = changed(&before, &after);
        let m = format!("put_varint#{}", ty);
        if ch.iter().any(|i| *i < off || *i >= off + bcap) {
          ctx.bad("varint-outside", &m, format!("at len {}: bytes outside the buffer changed: {:?}", len, ch));
        }
        match r {
          Ok(n) => {
            if len + n > bcap || b.len_() != len + n || ch.iter().any(|i| *i < off + len || *i >= off + len + n) {
              ctx.bad("varint-len", &m, format!("at len {} of capacity {}: reported {} bytes, len now {}, bytes changed {:?}", len, bcap, n, b.len_(), ch));
            }
            if ty < 4 {
              let bits = [16, 32, 64, 128][ty as usize];
              let ux = if bits == 128 { x as u128 } else { (x as u128) & ((1u128 << bits) - 1) };
              if n != leb_unsigned(ux).len() {
                ctx.bad("varint-encoding", &m, format!("{} took {} bytes, LEB128 needs {}", ux, n, leb_unsigned(ux).len()));
              }
            }
          }
          Err(()) => {
            if b.len_() != len {
              ctx.bad("failed-put-effect", &m, format!("failed varint put moved len {} -> {}", len, b.len_()));
            }
            if ty < 4 {
              let bits = [16, 32, 64, 128][ty as usize];
              let ux = if bits == 128 { x as u128 } else { (x as u128) & ((1u128 << bits) - 1) };
              if len + leb_unsigned(ux).len() <= bcap {
                ctx.bad("varint-refused", &m, format!("{} needs {} bytes, {} free: refused", ux, leb_unsigned(ux).len(), bcap - len));
              }
            }
          }
        }
      }
    }
    // ---- align_to / put / put_aligned over every layout
    if want("align_to") || want("put") || want("put_aligned") {
      for (al, sz) in LAYOUTS {
        if sz > 24 && sz != 32 {
          continue;
        }
        for which in 0..3 {
          let mname = ["align_to", "put", "put_aligned"][which];
          if !want(mname) {
            continue;
          }
          let Some((c, mut b)) = fresh(len) else { continue };
          let (off, bcap, ..) = b.meta();
          let base = c.arena.raw_ptr() as usize;
          let before = image(&c);
          // `put` requires the caller to have aligned the buffer first (its safety contract)
          let mut len = len;
          if which == 1 {
            if b.align_to_l(al, sz).is_err() {
              continue;
            }
            len = b.len_();
            if len > bcap {
              continue; // reported by the align_to case
            }
          }
          let r = match which {
            0 => b.align_to_l(al, sz),
            1 => b.put_l(al, sz, false),
            _ => b.put_l(al, sz, true),
          };
          let after = image(&c);
          evals += 1;
          let ch = changed(&before, &after);
          let (al, sz) = (al as usize, sz as usize);
          // padding needed from the current position to the next multiple of the alignment (by address)
          let pos = base + off + len;
          let aligned_pos = (pos + al - 1) & !(al - 1);
          let pad = aligned_pos - pos;
          match which {
            0 => match r {
              Ok(p) => {
                if sz > 0 && bcap > 0 && (p % al != 0 || p < base + off || p > base + off + bcap) {
                  ctx.bad("align-to-pointer", mname, format!("align {}: pointer arena+{} (buffer [{},{})), len {} -> {}", al, p as i64 - base as i64, off, off + bcap, len, b.len_()));
                }
                if sz > 0 && (b.len_() > bcap || b.len_() < len) {
                  ctx.bad("align-to-len", mname, format!("len {} -> {} capacity {}", len, b.len_(), bcap));
                }
                if !ch.is_empty() {
                  ctx.bad("align-to-wrote", mname, format!("changed bytes {:?}", ch));
                }
              }
              Err(()) => {
                if b.len_() != len || !ch.is_empty() {
                  ctx.bad("failed-put-effect", mname, "failed align_to changed len or bytes".into());
                }
                if sz > 0 && len + pad <= bcap {
                  ctx.bad("align-to-refused", mname, format!("align {} from len {} needs {} padding bytes, capacity {}: refused", al, len, pad, bcap));
                }
              }
            },
            _ => {
              let start = if which == 2 && sz > 0 { len + pad } else { len };
              match r {
                Ok(p) => {
                  let lo = off + start;
                  let inside = sz == 0 || start + sz <= bcap;
                  if !inside {
                    ctx.bad("put-beyond-capacity", mname, format!("size {} align {} at len {} (value at [{},{})) accepted into capacity {}; bytes changed: {:?}", sz, al, len, lo, lo + sz, bcap, ch));
                  } else {
                    if sz > 0 && p != base + lo {
                      ctx.bad("put-pointer", mname, format!("returned arena+{} expected arena+{}", p as i64 - base as i64, lo));
                    }
                    if sz > 0 && (ch.iter().any(|i| *i < off + len || *i >= lo + sz) || after[lo..lo + sz].iter().any(|x| *x != 0x5A)) {
                      ctx.bad("out-of-place-write", mname, format!("changed {:?}, value belongs at [{},{})", ch, lo, lo + sz));
                    }
                    if b.len_() != start + sz && sz > 0 {
                      ctx.bad("len", mname, format!("len {} expected {}", b.len_(), start + sz));
                    }
                  }
                }
                Err(()) => {
                  if b.len_() != len || ch.iter().any(|i| *i < off || *i >= off + bcap) {
                    ctx.bad("failed-put-effect", mname, format!("failed {} changed len {} -> {} or bytes outside the buffer {:?}", mname, len, b.len_(), ch));
                  }
                  if start + sz <= bcap && sz > 0 {
                    ctx.bad("put-refused", mname, format!("size {} align {} at len {} fits capacity {} but was refused", sz, al, len, bcap));
                  }
                }
              }
            }
          }
        }
      }
    }
  }
  // ---- varints on an empty buffer
  if want("varint") {
    let vals: Vec<(u8, i128)> = {
      let mut v = vec![];
      for (ty, bits, signed) in [(0u8, 16u32, false), (1, 32, false), (2, 64, false), (3, 128, false), (4, 16, true), (5, 32, true), (6, 64, true), (7, 128, true)] {
        let mut xs: Vec<i128> = vec![0, 1, 127, 128, 300, 16383, 16384];
        if signed {
          xs.extend([-1, -64, -65, -128]);
          xs.push(if bits == 128 { i128::MIN } else { -(1i128 << (bits - 1)) });
          xs.push(if bits == 128 { i128::MAX } else { (1i128 << (bits - 1)) - 1 });
        } else {
          xs.push(if bits == 128 { -1 } else { (1i128 << bits) - 1 });
        }
        for x in xs {
          v.push((ty, x));
        }
      }
      v
    };
    for (ty, x) in vals {
      let Some((c, mut b)) = fresh(0) else { continue };
      let (off, bcap, ..) = b.meta();
      let before = image(&c);
      let (r, g) = b.varint(ty, x);
      let after = image(&c);
      evals += 1;
      let ch = changed(&before, &after);
      let m = format!("put_varint#{}", ty);
      if ch.iter().any(|i| *i < off || *i >= off + bcap) {
        ctx.bad("varint-outside", &m, format!("bytes outside the buffer changed: {:?}", ch));
      }
      match r {
        Ok(n) => {
          if n > bcap || b.len_() != n {
            ctx.bad("varint-len", &m, format!("wrote {} bytes, len {}, capacity {}", n, b.len_(), bcap));
          }
          if ty < 4 {
            let bits = [16, 32, 64, 128][ty as usize];
            let ux = if bits == 128 { x as u128 } else { (x as u128) & ((1u128 << bits) - 1) };
            let want_bytes = leb_unsigned(ux);
            if n != want_bytes.len() || after[off..off + n.min(bcap)] != want_bytes[..n.min(want_bytes.len())] {
              ctx.bad("varint-encoding", &m, format!("{} encoded as {:x?}, LEB128 is {:x?}", ux, &after[off..off + n.min(bcap)], want_bytes));
            }
          }
          let bits = [16u32, 32, 64, 128, 16, 32, 64, 128][ty as usize];
          let norm = |y: i128| if bits == 128 { y } else if ty >= 4 { (y << (128 - bits)) >> (128 - bits) } else { y & ((1i128 << bits) - 1) };
          match g {
            Some((gn, gv)) if gn == n && norm(gv) == norm(x) => {}
            other => ctx.bad("varint-roundtrip", &m, format!("put {} ({} bytes) then get returned {:?}", x, n, other)),
          }
        }
        Err(()) => {
          if b.len_() != 0 {
            ctx.bad("failed-put-effect", &m, format!("failed varint put left len {}", b.len_()));
          }
          if ty < 4 {
            let bits = [16, 32, 64, 128][ty as usize];
            let ux = if bits == 128 { x as u128 } else { (x as u128) & ((1u128 << bits) - 1) };
            if leb_unsigned(ux).len() <= bcap {
              ctx.bad("varint-refused", &m, format!("{} needs {} bytes, capacity {}: refused", ux, leb_unsigned(ux).len(), bcap));
            }
          }
        }
      }
    }
  }
  evals
}

#[repr(C, align(64))]
#[derive(Clone, Copy)]
struct A64([u8; 64]);
#[repr(C, align(4096))]
#[derive(Clone, Copy)]
struct A4096([u8; 4096]);

/// Pointers handed out for types whose alignment is above the allocator default, on arenas created with a
/// matching maximum alignment, before and after resizing the (Vec-backed, unsync) arena: `align_to`,
/// `alloc_aligned_bytes` and `alloc::<T>` must yield addresses aligned for T.  Returns (calls, problems).
pub fn big_alignment_after_truncate() -> (u64, Vec<String>) {
  let mut bad = vec![];
  let mut n = 0u64;
  fn probe<A: Subject>(a: &A, when: &str, n: &mut u64, bad: &mut Vec<String>) {
    let base = a.raw_ptr() as usize;
    if base % 4096 != 0 {
      bad.push(format!("{}: {} arena created with maximum alignment 4096 has its base at {:#x}", when, A::FLAVOUR, base));
    }
    // a buffer at an odd cursor, then align_to for the two types
    let mut pad = a.alloc_bytes(3).unwrap();
    unsafe { pad.detach() };
    for which in 0..2 {
      let mut b = a.alloc_bytes(if which == 0 { 200 } else { 8300 }).unwrap();
      unsafe { b.detach() };
      let r = if which == 0 { b.align_to::<A64>().map(|p| p.as_ptr() as usize) } else { b.align_to::<A4096>().map(|p| p.as_ptr() as usize) };
      *n += 1;
      let al = if which == 0 { 64 } else { 4096 };
      match r {
        Ok(p) if p % al != 0 => bad.push(format!("{}: {} align_to::<align {}> returned {:#x}", when, A::FLAVOUR, al, p)),
        Err(e) => bad.push(format!("{}: {} align_to::<align {}> on a large enough buffer failed: {:?}", when, A::FLAVOUR, al, e)),
        _ => {}
      }
    }
    let t = unsafe { a.alloc::<A64>() }.map(|mut t| {
      unsafe { t.detach() };
      a.raw_ptr() as usize + t.offset()
    });
    *n += 1;
    match t {
      Ok(p) if p % 64 != 0 => bad.push(format!("{}: {} alloc::<align 64> placed the value at {:#x}", when, A::FLAVOUR, p)),
      Err(e) => bad.push(format!("{}: {} alloc::<align 64> failed: {:?}", when, A::FLAVOUR, e)),
      _ => {}
    }
    let t = a.alloc_aligned_bytes::<A64>(5).map(|mut t| {
      unsafe { t.detach() };
      a.raw_ptr() as usize + t.offset()
    });
    *n += 1;
    match t {
      Ok(p) if p % 64 != 0 => bad.push(format!("{}: {} alloc_aligned_bytes::<align 64> starts at {:#x}", when, A::FLAVOUR, p)),
      Err(e) => bad.push(format!("{}: {} alloc_aligned_bytes::<align 64> failed: {:?}", when, A::FLAVOUR, e)),
      _ => {}
    }
  }
  for unify in [false, true] {
    let mut cfg = Cfg::new(Fl::Optimistic, Backend::Vec, unify, 40000);
    cfg.max_align = 4096;
    let s: sync::Arena = build(&cfg, None).unwrap();
    probe(&s, "as created", &mut n, &mut bad);
    let mut u: unsync::Arena = build(&cfg, None).unwrap();
    probe(&u, "as created", &mut n, &mut bad);
    // grow, shrink, grow again: every resize reallocates the backing vector
    for (k, size) in [60000usize, 40000, 40001, 90000, 65536, 70000, 70008].into_iter().enumerate() {
      let _ = u.truncate(size);
      if u.capacity() != size {
        continue;
      }
      if u.remaining() > 9000 {
        probe(&u, &format!("after truncate #{} to {}", k + 1, size), &mut n, &mut bad);
      }
    }
  }
  (n, bad)
}

pub fn check(tier: Tier) -> i32 {
  let run = Run::new("C14", tier, "model_checking");
  let thorough = tier == Tier::Thorough;
  let maxcap = if thorough { 24 } else { 20 };
  let mut items = vec![];
  for cap in 0..=maxcap {
    let mut srcs = vec![Src::Fresh(0), Src::Fresh(1), Src::Padded(1), Src::Recycled(0), Src::Slack(0)];
    if thorough {
      srcs.extend([Src::Fresh(3), Src::Fresh(7), Src::Padded(3), Src::Padded(5), Src::Recycled(1), Src::Recycled(4), Src::Slack(3)]);
    }
    for src in srcs {
      for owned in [false, true] {
        for sync in [true, false] {
          if !thorough && owned && !sync && cap % 4 != 0 {
            continue;
          }
          items.push((cap, src, owned, sync));
        }
      }
    }
  }
  par_for_each(&items, |_, &(cap, src, owned, sync)| {
    let ctx = Ctx { run: &run, flavour: if sync { "sync" } else { "unsync" }, owned, src, cap };
    crate::crashguard::set_case(crate::crashguard::head_of(&json!({"engine": "buf", "tag": "C14", "flavour": ctx.flavour, "owned": owned, "src": src, "cap": cap})));
    let n = if sync { run_case::<sync::Arena>(&ctx, None) } else { run_case::<unsync::Arena>(&ctx, None) };
    crate::crashguard::clear_case();
    run.eval(n);
    run.trans(n);
    run.states.insert(hash_of(&(cap, src, owned, sync)));
    if n > 0 {
      run.nontrivial.insert(hash_of(&(cap, src, owned, sync)));
    }
    if cap == 9 && owned && sync {
      run.sample(|| json!({"buffer": {"capacity": cap, "source": src, "owned": owned, "flavour": "sync"}, "calls_checked": n, "methods": "put/write/get x 10 int types x be/le/ne x value alphabet, put_u8/i8, put_slice + io::Write all lengths, set_len all lengths, align_to/put/put_aligned x layouts, 8 varint types; every fill level 0..=capacity"}));
    }
  });
  {
    let case = json!({"engine": "buf", "tag": "C14", "part": "big-alignment"});
    crate::crashguard::set_case(crate::crashguard::head_of(&case));
    let (n, bad) = big_alignment_after_truncate();
    crate::crashguard::clear_case();
    run.eval(n);
    for m in bad {
      run.violation(Violation { property: "C14".into(), signature: format!("C14:big-alignment:{}", if m.starts_with("as created") { "as-created" } else { "after-truncate" }), message: m, replay: case.clone() });
    }
  }
  run.rule("every generated buffer method x value alphabet x every fill level 0..=capacity x every buffer capacity 0..=max x buffer source (fresh at several cursor residues, padded aligned-bytes, recycled segment) x borrowed/owned x sync/unsync; each call on a freshly built arena, whole-image before/after comparison; evaluations = calls; states/non-trivial = distinct (capacity, source, handle kind, flavour) cells");
  run.set("bounds", json!({"max_capacity": maxcap, "layouts": "align 1..16 x size 0..=24 and 32", "int_values_per_type": values(8).len()}));
  run.assume("value alphabet is boundary-dense, not all 2^128 values");
  run.finish()
}

/// replay one (buffer, method) cell
pub fn replay(case: &serde_json::Value) -> i32 {
  if case["part"] == "big-alignment" {
    let (n, bad) = big_alignment_after_truncate();
    println!("replay buf (big-alignment): {} calls, {} problem(s)", n, bad.len());
    for m in &bad {
      println!("  !! {}", m);
    }
    return if bad.is_empty() { 0 } else { 1 };
  }
  let run = Run::new("C14", Tier::Quick, "model_checking");
  let src: Src = match (&case["src"], case["src"].as_object()) {
    (_, Some(o)) => {
      let (k, v) = o.iter().next().unwrap();
      let n = v.as_u64().unwrap() as u32;
      match k.as_str() {
        "Fresh" => Src::Fresh(n),
        "Padded" => Src::Padded(n),
        "Slack" => Src::Slack(n),
        _ => Src::Recycled(n),
      }
    }
    _ => Src::Fresh(0),
  };
  let ctx = Ctx { run: &run, flavour: if case["flavour"] == "sync" { "sync" } else { "unsync" }, owned: case["owned"].as_bool().unwrap_or(false), src, cap: case["cap"].as_u64().unwrap_or(0) as u32 };
  let m = case["method"].as_str();
  let n = if ctx.flavour == "sync" { run_case::<sync::Arena>(&ctx, m) } else { run_case::<unsync::Arena>(&ctx, m) };
  let v = run.violations.lock().unwrap();
  println!("replay buf: {} calls, {} distinct violation(s)", n, v.len());
  for (sig, (cnt, x)) in v.iter() {
    println!("  !! {} x{}: {}", sig, cnt, x.message);
  }
  if v.is_empty() {
    0
  } else {
    1
  }
}
