//! Uniform access to the two arena flavours and the three backing stores.
use rarena_allocator::verif::{Ranges, Snapshot};
use rarena_allocator::{sync, unsync, Allocator, Freelist, Options};
use serde::{Deserialize, Serialize};
use std::path::PathBuf;
use std::sync::atomic::{AtomicU64, Ordering};

pub trait Subject: Allocator + Clone + std::fmt::Debug + 'static {
  const FLAVOUR: &'static str;
  const SYNC: bool;
  fn snap(&self, max_nodes: usize) -> Snapshot;
  fn ranges(&self) -> Ranges;
  /// `truncate(n)` where the flavour has it (unsync only)
  fn truncate_(&mut self, _n: usize) -> Option<std::io::Result<()>> {
    None
  }
}

impl Subject for sync::Arena {
  const FLAVOUR: &'static str = "sync";
  const SYNC: bool = true;
  fn snap(&self, max_nodes: usize) -> Snapshot {
    self.verif_snapshot(max_nodes)
  }
  fn ranges(&self) -> Ranges {
    self.verif_ranges()
  }
}

impl Subject for unsync::Arena {
  const FLAVOUR: &'static str = "unsync";
  const SYNC: bool = false;
  fn truncate_(&mut self, n: usize) -> Option<std::io::Result<()>> {
    Some(self.truncate(n))
  }
  fn snap(&self, max_nodes: usize) -> Snapshot {
    self.verif_snapshot(max_nodes)
  }
  fn ranges(&self) -> Ranges {
    self.verif_ranges()
  }
}

#[derive(Clone, Copy, Debug, PartialEq, Eq, Hash, Serialize, Deserialize)]
pub enum Backend {
  Vec,
  Anon,
  File,
}

#[derive(Clone, Copy, Debug, PartialEq, Eq, Hash, Serialize, Deserialize)]
pub enum Fl {
  None,
  Optimistic,
  Pessimistic,
}

impl Fl {
  pub fn to(self) -> Freelist {
    match self {
      Fl::None => Freelist::None,
      Fl::Optimistic => Freelist::Optimistic,
      Fl::Pessimistic => Freelist::Pessimistic,
    }
  }
  pub const ALL: [Fl; 3] = [Fl::Optimistic, Fl::Pessimistic, Fl::None];
}

#[derive(Clone, Copy, Debug, PartialEq, Eq, Hash, Serialize, Deserialize)]
pub struct Cfg {
  pub fl: Fl,
  pub backend: Backend,
  pub unify: bool,
  pub reserved: u32,
  pub min_seg: u32,
  pub max_align: usize,
  pub cap: u32,
  pub magic: u16,
  /// file backend only: the arena starts at this (page-aligned) offset of the file
  #[serde(default)]
  pub file_offset: u32,
  /// `Options::with_maximum_retries` (library default 5)
  #[serde(default = "default_retries")]
  pub retries: u8,
  /// the history is driven through a clone of the arena value (the original stays alive next to it)
  #[serde(default)]
  pub via_clone: bool,
  /// `Options::with_lock_meta` (mmap backends: the header is locked into memory at construction)
  #[serde(default)]
  pub lock_meta: bool,
}

fn default_retries() -> u8 {
  5
}

impl Cfg {
  pub fn new(fl: Fl, backend: Backend, unify: bool, cap: u32) -> Self {
    Cfg {
      fl,
      backend,
      unify,
      reserved: 0,
      min_seg: 8,
      max_align: 16,
      cap,
      magic: 0,
      file_offset: 0,
      retries: 5,
      via_clone: false,
      lock_meta: false,
    }
  }

  pub fn options(&self) -> Options {
    Options::new()
      .with_capacity(self.cap)
      .with_unify(self.unify)
      .with_freelist(self.fl.to())
      .with_reserved(self.reserved)
      .with_minimum_segment_size(self.min_seg)
      .with_maximum_alignment(self.max_align)
      .with_magic_version(self.magic)
      .with_offset(self.file_offset as u64)
      .with_maximum_retries(self.retries)
      .with_lock_meta(self.lock_meta)
  }

  /// effective layout (files are always unified)
  pub fn unified(&self) -> bool {
    self.unify || self.backend == Backend::File
  }

  pub fn data_offset(&self) -> usize {
    if self.unified() {
      ((self.reserved as usize + 7) & !7) + 8 + 24
    } else {
      self.reserved as usize + 1
    }
  }
}

static FILE_SEQ: AtomicU64 = AtomicU64::new(0);

pub fn scratch_dir() -> PathBuf {
  let base = if std::path::Path::new("/dev/shm").is_dir() {
    PathBuf::from("/dev/shm")
  } else {
    std::env::temp_dir()
  };
  let d = base.join(format!("rarena-verif-{}", std::process::id()));
  let _ = std::fs::create_dir_all(&d);
  d
}

pub fn fresh_path(tag: &str) -> PathBuf {
  let n = FILE_SEQ.fetch_add(1, Ordering::Relaxed);
  scratch_dir().join(format!("{}-{}", tag, n))
}

pub fn cleanup_scratch() {
  let _ = std::fs::remove_dir_all(scratch_dir());
}

/// Build a fresh arena. For `File` the file is created at `path` (must be given).
pub fn build<A: Subject>(cfg: &Cfg, path: Option<&PathBuf>) -> Result<A, String> {
  let o = cfg.options();
  match cfg.backend {
    Backend::Vec => o.alloc::<A>().map_err(|e| format!("{e:?}")),
    Backend::Anon => o.map_anon::<A>().map_err(|e| format!("{e}")),
    Backend::File => {
      let p = path.expect("file backend needs a path");
      let _ = std::fs::remove_file(p);
      unsafe {
        o.with_create_new(true)
          .with_read(true)
          .with_write(true)
          .map_mut::<A, _>(p)
          .map_err(|e| format!("{e}"))
      }
    }
  }
}

/// (offset, capacity, buffer_offset, buffer_capacity)
pub type Meta4 = (usize, usize, usize, usize);

pub fn meta_of<B: rarena_allocator::Buffer + ?Sized>(b: &B) -> Meta4 {
  (b.offset(), b.capacity(), b.buffer_offset(), b.buffer_capacity())
}
